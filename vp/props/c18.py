"""C18 - ed-style patch scripts are applied exactly; malformed commands and
unterminated text blocks raise ValueError.

Deciding monitor M (boundary oracle on the public API, nothing else):

* M.apply  - for a pair (old, new) and a script S derived WITHOUT the library
  (vp.models.edscript: difflib opcodes -> a/c/d commands in descending line
  order; `diff -e` output as a second, independent source), observe
  ``patch_lines(lines, patches_from_ed_script(S))`` on the live tree, as str
  and as bytes, with S handed over as a list, a one-shot iterator and a file
  object; the mutated list must equal ``new``.
* M.reject - for a well-formed script with exactly ONE command corrupted at an
  index the generator recorded (never guessed from content), or cut inside a
  text block so that the block never sees its '.', the same call must raise
  ValueError.

* M.collect / M.triples - the same scripts with the patches COLLECTED before they
  are applied (``list(...)``, ``tuple(...)``, and a two-pass use: iterate once,
  read the collected list, apply it, apply it to a second copy): the result must
  again equal ``new``.  The collected triples are compared with the reference
  interpreter's triples (first, last, replacement lines) after the WHOLE script
  has been consumed - by value, by identity of the text objects and, in the
  two-pass use, against what each triple looked like when it was yielded - to
  name the mechanism (shared text object, patch object yielded twice, text
  changed after yield, index differs, patch_lines treating a sequence
  differently from an iterator or consuming it).
* M.apply.empty - the EMPTY script (old == new, the empty file included; from
  difflib and from `diff -e`) through every source kind and every use: a no-op
  that never raises.

* M.apply.alt - OTHER SPELLINGS of the same edits, as diff writers other than GNU diff emit them: a removal written
  as a change with an EMPTY text block ('3,4c' + '.', '5c' + '.'), an append with an empty text block ('7a' + '.', a
  no-op), a change of a range by the identical lines, one hunk written as two adjacent ones (remove + append at the
  same place in either order, a removal or a change cut in two), every removal of a script written as c, addresses
  with leading zeros ('03,04d', '00a'), N,N for a single line, and a script whose last line ('.' or a d command) has
  no final newline.  Same observation, same verdict as M.apply / M.collect (str and bytes; list / iterator / file /
  on-disk file; piped and collected); the target is what the reference interpreter makes of the script.
* M.reject.zero - ZERO-VALUED BUT PRESENT address fields: 'N,0a' / 'N,00a' / '0,Na' and surplus or missing numbers
  next to a zero must raise ValueError like any other range on an append; 'N,0c' / 'N,0d' must raise ValueError
  wherever the SAME tree raises ValueError for the same command with a non-zero bad second address ('N,Kc', 0 < K < N).

Every script is first run through the strict reference interpreter of
vp.models.edscript (must reproduce `new` / must reject): if my own model
disagrees with my own generator the case is dropped and the run is
INCONCLUSIVE - the repository is never accused on the strength of a script my
model cannot vouch for.  On a mismatch the parsed triples are compared with
the reference triples only to NAME the mechanism (which command kind was
converted wrongly, or the application order); the verdict itself is the
boundary comparison.
"""
import io
import itertools
import re
import shutil
import subprocess
import os
import tempfile

from ..models import edscript

PROP = 'C18'
LEVEL = 'exploration'
RULE = ('Pairs (old, new) of 0..12 newline-terminated lines (thorough: occasionally up to 40): new is old after 0..4 '
        'run edits biased to the first/last line, or unrelated, or empty, or a full replacement; content mixes unique '
        'ids with a hostile alphabet (lines that look like commands "1a" "2,3d", "..", ". ", " .", ".x", CR, TAB, '
        'non-ASCII) but never a lone "."; plus ALL pairs with old = first n of 4 distinct lines (n<=4) and new any '
        'sequence of length <= 5 over those lines and one fresh line.  The script comes from difflib opcodes '
        '(optionally with replace split into d+a) or from `diff -e`.  An application case is non-trivial when the '
        'script has >= 1 command (old != new).  A rejection case (one corrupted command: bad letter, missing letter, '
        'missing number, three numbers, range on a, blanks, sign, junk suffix, non-decimal; or truncation inside a '
        'text block at its start / middle / just before the "." / mid-line) is always non-trivial.  '
        'LINE-BOUNDARY CLASS (brk:*): the same pair generator with content drawn from templates that embed one of the 9 '
        'non-LF line-boundary characters CR VT FF FS GS RS NEL LS PS in the MIDDLE of a line (a<B>b, x<B>. whose tail is a '
        'lone ".", .<B>x / .<B> whose head is, x<B>1d / 1a<B>. that look like commands, <B> alone, doubled, two different '
        'breaks, break followed by CR LF), in old lines and in script text blocks; plus the COMPLETE matrix 9 characters '
        'x 14 templates x 19 placements (append at 0 / middle / end, change of one line / of a range / of everything, '
        'delete of / next to such a line, empty old, empty new, two such lines in one block); each as str and as bytes '
        '(UTF-8, and Latin-1 when every code point is < 256 so that NEL is the raw byte 0x85), through list, iterator, '
        'in-memory file, and on-disk file objects (text mode newline="" or "\\n", binary mode); `diff -e` scripts over the '
        'same content; truncations and corrupted commands of such scripts; commands with a break character before / '
        'inside / after them or preceded by "x<B>" (break-in-command).  MULTI-BLOCK TRUNCATION (reject:trunc-multi:*): '
        'scripts built to have >= 3 text blocks (3..5 separated hunks) cut inside the first, a middle and the LAST text '
        'block, each at block start / mid-block / before the "." / mid-line.  '
        'COLLECTED PATCHES (collect:*, M.collect / M.triples): every application case above is run piped '
        '(patch_lines(lines, patches_from_ed_script(S))) AND with the patches collected first - use "list" '
        '(patches = list(...)), "tuple", or "two-pass" (a for loop that keeps each yielded triple and a by-value snapshot '
        'of it; when S is a list it is first parsed once for errors only and then parsed again; the collected list is '
        'read once without being touched, applied to a copy of old, and applied again to a second copy); one use per '
        'random case, all three for the enumerated old<=4 x new<=5 sub-space and the multi-block scripts.  After the '
        'whole script has been consumed the collected triples are compared with the reference triples (first, last, '
        'replacement lines): by value, by identity of the replacement-list objects of commands with a non-empty text, by '
        'identity of the triples, and against the at-yield snapshots.  collect:different-texts>=2 counts the scripts '
        'with >= 2 text blocks of different content (where a shared / reused replacement list cannot be right).  '
        'EMPTY SCRIPT (empty:*, M.apply.empty): old == new - 6 fixed files (the empty file, 1 line, 3 lines, a blank '
        'line, command look-alikes, embedded line-boundary characters) x list / iterator / in-memory file / on-disk '
        'file x the three uses x difflib / `diff -e`, plus random files of 0..12 lines (plain, hostile alphabet, '
        'line-boundary class), str and bytes: the script has no line at all; it must apply as a no-op (lines equal to '
        'old afterwards) and never raise; such cases are trivial for distinct_nontrivial.  '
        'OTHER SPELLINGS (alt:*, M.apply.alt; scripts from diff writers other than `diff -e`): the pair generator above '
        '(15% line-boundary content), the script re-spelled hunk by hunk: a removal as "N[,M]c" + "." (change with an EMPTY '
        'text block; with probability 1/4 EVERY removal of the script) or as d; a replacement as c, as removal + append at '
        'the same place, or as append after the range + removal of the range; a hunk of >= 2 lines cut into two adjacent '
        'hunks (removal|change above, removal|change below); in a run of kept lines a NO-OP append ("Na" + ".", strictly '
        'inside the run, or at line 0 / after the last line when no hunk touches that end) or a change of 1..3 kept lines by '
        'the IDENTICAL lines; addresses with 1..3 LEADING ZEROS ("03,04d", "00a", "007a"; none / half / all commands); '
        '"N,N" for a single line; the LAST line of the script ("." or a d command) WITHOUT its newline (30%).  All pieces '
        'act on non-overlapping slices in descending order.  Source kinds: list, TUPLE, iterator, in-memory file, on-disk '
        'file; str and bytes; piped and one collected use per case.  Plus the COMPLETE matrix of single commands over files of 5, 1 '
        'and 0 lines (a at every position with 0 / 1 / 2 text lines; d of every range; c of every range with no text / the '
        'identical lines / 1 / 2 new lines) x every spelling of the command line (no, one or two leading zeros on either '
        'address; N,N for one line) x with / without the final newline, and the two-command shapes (removal as d or c + '
        'append at the same place, in both orders; a no-op append before / after a removal; a removal as two adjacent '
        'ones).  The features are MEASURED on each script by walking it with the reference interpreter (alt:c-empty, '
        'alt:a-empty, alt:c-identity, alt:same-place/*, alt:unmerged/*, alt:all-removals-as-c, alt:leading-zero[/a|c|d|00], '
        'alt:N,N-range, alt:no-final-newline/dot|command); scripts from the older generators that show a feature (difflib '
        'with replace split into d + a) are counted too.  '
        'ZERO-VALUED ADDRESS FIELDS (zero:*, M.reject.zero): in a well-formed script one command gets an address field '
        'that is present and zero: an append becomes "N,0a" / "N,00a" / "N,000a" / "0N,0a" (range-on-append/zero-second) or '
        '"0,Na" / "00,Na" / "0,0a" (zero-first); any command becomes "N,0,0c" / "0,0,0d" / "N,N,0c" (three-numbers/zero) or '
        '",0c" / "0,c" (missing-number/zero) - all malformed, ValueError demanded; a c / d command "N[,M]x" becomes "N,0x" / '
        '"N,00x" / "N,000x" (zero-second) and is run next to its ANALOG "N,Kx" with a random 0 < K < N (when N >= 2) and '
        'its single-address form "Nx".  Plus the complete matrix over a 6-line file: N,Za for N = 0..6 (with and without a '
        'leading zero on N, alone and after a valid command), N,Zc / N,Zd with every K < N as the analog.')
ASSUMPTIONS = ['vp.models.edscript (script deriver + strict reference interpreter) is right; every script is self-checked '
               'against the reference interpreter before use and `diff -e` (GNU diffutils) is a second script source',
               'domain: every line ends in exactly one newline and no content line is a lone "." (ed cannot carry either; '
               'diff -e would emit s/ fix-ups that are outside the statement)',
               'malformed = syntactically corrupted command line or text block cut before its "."; semantically odd but '
               'well-formed commands (0d, reversed or out-of-range addresses, non-ASCII digits) are outside the oracle',
               'only "raises ValueError" is demanded for malformed scripts, not that the list is left untouched '
               '(patches are applied lazily while the script is read)',
               'line-boundary class: a line is whatever ends in the single final "\\n"; CR VT FF FS GS RS NEL LS PS inside '
               'it are ordinary content, so only ".\\n" (or "." at end of stream) terminates a block and the result is '
               'compared list element by list element',
               'file-object sources must hand the library the script lines unchanged: in-memory and on-disk text files are '
               'opened with newline="" when no script line contains CR and with newline="\\n" otherwise (newline="" and '
               'newline=None cut a line at a bare CR while READING, so that form cannot carry an embedded CR as one '
               'element; neither setting translates anything); bytes use BytesIO / binary mode.  Every file source is '
               'read back once by the harness first - if it does not reproduce the script lines exactly the case falls '
               'back to the iterator source (counter src:file-cannot-carry, expected 0)',
               'Latin-1 bytes cases are only built from content whose code points are all < 256; on-disk text files are '
               'always UTF-8',
               'a command line with a line-boundary character before, inside or after the "N[,M]letter" text is a '
               'syntactically corrupted command (same footing as the blanks / junk-suffix classes)',
               '`diff -e` (run with LC_ALL=C) is only believed where its script passes the reference-interpreter '
               'self-check; a refused script makes the run INCONCLUSIVE, never a violation',
               'collected patches: the VERDICT is the application result (patch_lines(copy of old, collected) must equal '
               'new); the triple-by-triple comparison with the reference only names the mechanism.  Collected triples that '
               'differ from the reference triples but still apply to the target (an equivalent formulation: other index '
               'form for an append, split or merged commands, shared objects that happen to hold equal text) are counted '
               '(collect:triples-differ-but-equivalent/*, collect:text-object-shared), never accused',
               'a yielded patch is anything that unpacks into (first, last, text); text is compared as list(text), so a '
               'tuple or other sequence of the right lines is accepted; identity is only looked at between commands whose '
               'reference text is non-empty (d commands may share any empty object)',
               'the collected patches are only read by the harness, never mutated; in the two-pass use the same collected '
               'list is applied to two separate copies of old and both must become new - patch_lines documents that it '
               'updates `lines`, nothing lets it consume or alter `patches` (a list is re-iterable), and parsing a script '
               'held in a list must leave that list as it was (only checked to name the mechanism when the second parse '
               'gives another result)',
               'the collected forms are only run when the piped form of the same script held (a piped failure is reported '
               'once, not four times)',
               'empty script: the correct script for old == new has no line at all (difflib yields no opcode, `diff -e` '
               'prints nothing); "yields exactly the target lines" then means the lines are unchanged, and since it is '
               'well-formed it must not raise.  Nothing is demanded about the type of an empty source beyond what the '
               'source kinds give (empty list, exhausted generator, StringIO("") / BytesIO(b""), empty file opened in '
               'text / binary mode); for the empty script the str and the bytes run differ only in the type of the old '
               'lines and of the file object',
               'other spellings: what a script MEANS is what ed does with it command by command (vp.models.edscript: '
               'decimal addresses, so "03" is 3 and "00" is 0; "N,N" is the one line N; a c with no text removes its range; '
               'an a with no text changes nothing; a text block ends at ".\\n" or at a "." that is the last item of the '
               'stream); the target of such a script is the result of the reference interpreter, which for the random '
               'scripts must also equal the `new` of the pair they were spelled from.  Only descending scripts are '
               'generated (each command acts at or below the slice of the one before and never overlaps it - the pdiff '
               'convention), so a tree that insisted on descending order would not be accused; two NON-EMPTY appends at the '
               'same address are never generated, and a no-op append is only placed strictly inside a run of kept lines or '
               'at a file end that no hunk touches',
               'a last line without its newline ("." closing the last text block, or a final d command) is demanded only '
               'because the unchanged tree accepts both (it lists "." next to ".\\n" as a terminator on purpose, and its '
               'command pattern ends in "$"); through file sources such a script is the file that lacks its final newline.  '
               'A text block cut anywhere else is still the truncation class (ValueError)',
               'zero-valued address fields: a range on an append is malformed whatever its numbers are, so "N,0a", "N,00a" '
               'and "0,Na" must raise ValueError exactly like "N,Ma" (absolute demand, M.reject).  "N,0c" / "N,0d" are '
               'well-formed SYNTAX with a bad range (the reference interpreter parses them and refuses the range); bad '
               'ranges stay outside the absolute oracle (see above), so the only demand is relative to the tree under test: '
               'if it raises ValueError for "N,Kc" with a non-zero K < N it must raise ValueError for "N,0c" too '
               '(malformed-command-accepted/zero-second-address).  The converse (zero refused, non-zero accepted) and any '
               'other outcome are not accused: a tree may refuse address 0 on c / d on its own grounds.  Whether an '
               'accepted "N,0c" was applied exactly like the single-address form "Nc" (the zero vanished) is recorded as '
               'the counter zero:second-on-cd/applied-like-the-single-address-form for the reader of the evidence (0 on '
               'the unchanged tree) and has no part in the verdict, because the statement gives such a script no target; '
               '"0,0d" / "1,0c" have no non-zero analog and are only exercised']
ANCHORS = ['debian.debian_support:patches_from_ed_script', 'debian.debian_support:patch_lines']
MUST_REACH = list(ANCHORS)

PAIRS = {'quick': 50000, 'thorough': 2000000}
MALFORMED = {'quick': 10000, 'thorough': 350000}      # base scripts; each yields 2 corruptions + up to 4 truncations
DIFFE = {'quick': 1500, 'thorough': 100000}
BRK_PAIRS = {'quick': 12000, 'thorough': 400000}
BRK_MALFORMED = {'quick': 3000, 'thorough': 80000}     # as MALFORMED
MULTIBLOCK = {'quick': 1600, 'thorough': 50000}        # base scripts; each yields 8..15 truncations
BRK_DIFFE = {'quick': 600, 'thorough': 30000}
EMPTY = {'quick': 4000, 'thorough': 120000}             # old == new (empty script), random files; + a complete matrix
EMPTY_DIFFE = {'quick': 600, 'thorough': 16000}
ALT_PAIRS = {'quick': 9000, 'thorough': 300000}        # (old, new) pairs whose script is written in OTHER SPELLINGS
ZERO = {'quick': 2500, 'thorough': 80000}              # base scripts; each yields 2..4 zero-valued-address cases

FLOORS = {
    'quick': {'nontrivial': 72000,
        'monitors': {'M.apply': 90000, 'M.reject': 96000, 'M.apply.brk': 11000, 'M.reject.brk': 20000,
                     'M.collect': 100000, 'M.triples': 100000, 'M.apply.empty': 13000, 'M.apply.alt': 15000,
                     'M.reject.zero': 6700},
        'counters': {'cmd:a@0': 11000, 'cmd:a@end': 5600, 'cmd:a@mid': 6300, 'cmd:c1': 11000, 'cmd:cN': 8400,
                     'cmd:d1': 7000, 'cmd:dN': 4600, 'cmd:c@first': 10000, 'cmd:d@first': 6000, 'cmd:d@last': 7300,
                     'cmd:c@last': 12000, 'shape:adjacent-hunks': 10000, 'shape:old-empty': 5200,
                     'shape:new-empty': 4800, 'shape:full-replace': 5300, 'shape:hunks>=2': 12000,
                     'shape:hunks=3+': 2800, 'reject:truncation': 32000, 'reject:command': 15000, 'mode:str': 45000,
                     'mode:bytes': 45000, 'src:list': 28000, 'src:iter': 28000, 'src:file': 28000, 'src:disk': 5800,
                     'brk:apply': 5600, 'brk:apply/tail-is-dot': 3000, 'brk:apply/head-is-dot': 1400,
                     'brk:apply/break-before-newline': 4800, 'brk:apply/old-line-kept': 1700,
                     'brk:apply/text-blocks>=2': 1000, 'brk:apply/enc:latin-1': 1300, 'brk:apply/enc:utf-8': 4300,
                     'brk:apply/src:list': 1400, 'brk:apply/src:iter': 1400, 'brk:apply/src:file': 1400,
                     'brk:apply/src:disk': 1000, 'brk:apply/U+000D': 1000, 'brk:apply/U+000B': 1000,
                     'brk:apply/U+000C': 1000, 'brk:apply/U+001C': 1000, 'brk:apply/U+001D': 1000,
                     'brk:apply/U+001E': 1000, 'brk:apply/U+0085': 1000, 'brk:apply/U+2028': 1000,
                     'brk:apply/U+2029': 1100, 'brk:reject': 10000, 'brk:reject/command': 2300,
                     'brk:reject/truncation': 7800, 'brk:reject/cut-after-tail-dot-line': 1800,
                     'brk:reject/enc:latin-1': 2000, 'reject-class:break-in-command': 1400,
                     'reject-class:truncation/no-final-newline': 3900, 'reject:trunc-multi:first': 910,
                     'reject:trunc-multi:middle': 3100, 'reject:trunc-multi:last': 3100, 'collect:use:list': 34000,
                     'collect:use:tuple': 34000, 'collect:use:two-pass': 34000, 'collect:src:list': 31000,
                     'collect:src:iter': 31000, 'collect:src:file': 31000, 'collect:src:disk': 6100,
                     'collect:mode:str': 51000, 'collect:mode:bytes': 51000, 'collect:patches>=2': 18000,
                     'collect:different-texts>=2': 20000, 'collect:different-texts>=2/use:list': 6900,
                     'collect:different-texts>=2/use:tuple': 6900, 'collect:different-texts>=2/use:two-pass': 6900,
                     'collect:script-list-parsed-twice': 10000, 'empty:apply': 6600, 'empty:mode:str': 6600,
                     'empty:mode:bytes': 6600, 'empty:old-empty': 1700, 'empty:old-empty/src:list': 490,
                     'empty:old-empty/src:iter': 520, 'empty:old-empty/src:file': 500, 'empty:old-empty/src:disk': 140,
                     'empty:old-has-break': 710, 'empty:src:list': 1900, 'empty:src:iter': 1900, 'empty:src:file': 1900,
                     'empty:src:disk': 590, 'empty:use:list': 4400, 'empty:use:tuple': 4300, 'empty:use:two-pass': 4400,
                     'alt:N,N-range': 1100, 'alt:a-empty': 760, 'alt:a-empty/@0': 240, 'alt:a-empty/@end': 140,
                     'alt:a-empty/@mid': 370, 'alt:all-removals-as-c': 1400, 'alt:apply': 7500, 'alt:c-empty': 1600,
                     'alt:c-empty/@last': 750, 'alt:c-empty/range': 560, 'alt:c-empty/single': 1000,
                     'alt:c-identity': 790, 'alt:collected': 15000, 'alt:leading-zero': 3200,
                     'alt:leading-zero/00': 840, 'alt:leading-zero/a': 1500, 'alt:leading-zero/c': 1700,
                     'alt:leading-zero/d': 530, 'alt:mode:bytes': 7500, 'alt:mode:str': 7500,
                     'alt:no-final-newline/command': 250, 'alt:no-final-newline/command/src:disk': 38,
                     'alt:no-final-newline/command/src:file': 53, 'alt:no-final-newline/command/src:iter': 53,
                     'alt:no-final-newline/command/src:list': 47, 'alt:no-final-newline/command/src:tuple': 48,
                     'alt:no-final-newline/dot': 1800, 'alt:no-final-newline/dot/src:disk': 290,
                     'alt:no-final-newline/dot/src:file': 390, 'alt:no-final-newline/dot/src:iter': 380,
                     'alt:no-final-newline/dot/src:list': 380, 'alt:no-final-newline/dot/src:tuple': 380,
                     'alt:same-place/append-then-remove': 560, 'alt:same-place/remove-then-append': 2600,
                     'alt:src:disk': 920, 'alt:src:file': 1800, 'alt:src:iter': 1800, 'alt:src:list': 1700,
                     'alt:src:tuple': 1100, 'alt:unmerged/changes': 170, 'alt:unmerged/removals': 190,
                     'alt:via:alt': 5500, 'reject-class:missing-number/zero': 490,
                     'reject-class:range-on-append/zero-first': 590, 'reject-class:range-on-append/zero-second': 630,
                     'reject-class:three-numbers/zero': 740, 'zero:malformed': 2400, 'zero:malformed/src:file': 810,
                     'zero:malformed/src:iter': 800, 'zero:malformed/src:list': 820, 'zero:second-on-c': 540,
                     'zero:second-on-cd': 890, 'zero:second-on-cd/no-analog': 470, 'zero:second-on-cd/spelled:0': 440,
                     'zero:second-on-cd/spelled:00': 210, 'zero:second-on-cd/spelled:000': 210,
                     'zero:second-on-cd/src:file': 290, 'zero:second-on-cd/src:iter': 290,
                     'zero:second-on-cd/src:list': 290, 'zero:second-on-cd/with-analog': 410, 'zero:second-on-d': 340}},
    'thorough': {'nontrivial': 1900000,
        'monitors': {'M.apply': 2900000, 'M.reject': 2900000, 'M.apply.brk': 280000, 'M.reject.brk': 480000,
                     'M.collect': 3000000, 'M.triples': 3000000, 'M.apply.empty': 470000, 'M.apply.alt': 450000,
                     'M.reject.zero': 210000},
        'counters': {'cmd:a@0': 360000, 'cmd:a@end': 170000, 'cmd:a@mid': 210000, 'cmd:c1': 380000, 'cmd:cN': 260000,
                     'cmd:d1': 220000, 'cmd:dN': 150000, 'cmd:c@first': 330000, 'cmd:d@first': 200000,
                     'cmd:d@last': 250000, 'cmd:c@last': 410000, 'shape:adjacent-hunks': 290000,
                     'shape:old-empty': 180000, 'shape:new-empty': 170000, 'shape:full-replace': 180000,
                     'shape:hunks>=2': 390000, 'shape:hunks=3+': 90000, 'reject:truncation': 960000,
                     'reject:command': 500000, 'mode:str': 1400000, 'mode:bytes': 1400000, 'src:list': 930000,
                     'src:iter': 930000, 'src:file': 930000, 'src:disk': 130000, 'brk:apply': 140000,
                     'brk:apply/tail-is-dot': 85000, 'brk:apply/head-is-dot': 39000,
                     'brk:apply/break-before-newline': 160000, 'brk:apply/old-line-kept': 52000,
                     'brk:apply/text-blocks>=2': 35000, 'brk:apply/enc:latin-1': 25000, 'brk:apply/enc:utf-8': 110000,
                     'brk:apply/src:list': 37000, 'brk:apply/src:iter': 37000, 'brk:apply/src:file': 37000,
                     'brk:apply/src:disk': 25000, 'brk:apply/U+000D': 31000, 'brk:apply/U+000B': 31000,
                     'brk:apply/U+000C': 31000, 'brk:apply/U+001C': 31000, 'brk:apply/U+001D': 31000,
                     'brk:apply/U+001E': 31000, 'brk:apply/U+0085': 31000, 'brk:apply/U+2028': 31000,
                     'brk:apply/U+2029': 31000, 'brk:reject': 240000, 'brk:reject/command': 63000,
                     'brk:reject/truncation': 170000, 'brk:reject/cut-after-tail-dot-line': 36000,
                     'brk:reject/enc:latin-1': 44000, 'reject-class:break-in-command': 40000,
                     'reject-class:truncation/no-final-newline': 110000, 'reject:trunc-multi:first': 29000,
                     'reject:trunc-multi:middle': 98000, 'reject:trunc-multi:last': 98000, 'collect:use:list': 1000000,
                     'collect:use:tuple': 1000000, 'collect:use:two-pass': 1000000, 'collect:src:list': 930000,
                     'collect:src:iter': 930000, 'collect:src:file': 930000, 'collect:src:disk': 150000,
                     'collect:mode:str': 1500000, 'collect:mode:bytes': 1500000, 'collect:patches>=2': 410000,
                     'collect:different-texts>=2': 480000, 'collect:different-texts>=2/use:list': 160000,
                     'collect:different-texts>=2/use:tuple': 160000, 'collect:different-texts>=2/use:two-pass': 160000,
                     'collect:script-list-parsed-twice': 310000, 'empty:apply': 230000, 'empty:mode:str': 230000,
                     'empty:mode:bytes': 230000, 'empty:old-empty': 61000, 'empty:old-empty/src:list': 18000,
                     'empty:old-empty/src:iter': 18000, 'empty:old-empty/src:file': 18000,
                     'empty:old-empty/src:disk': 4300, 'empty:old-has-break': 22000, 'empty:src:list': 72000,
                     'empty:src:iter': 72000, 'empty:src:file': 72000, 'empty:src:disk': 17000,
                     'empty:use:list': 150000, 'empty:use:tuple': 150000, 'empty:use:two-pass': 150000,
                     'alt:N,N-range': 31000, 'alt:a-empty': 23000, 'alt:a-empty/@0': 7300, 'alt:a-empty/@end': 4300,
                     'alt:a-empty/@mid': 12000, 'alt:all-removals-as-c': 40000, 'alt:apply': 220000,
                     'alt:c-empty': 44000, 'alt:c-empty/@last': 22000, 'alt:c-empty/range': 13000,
                     'alt:c-empty/single': 32000, 'alt:c-identity': 22000, 'alt:collected': 460000,
                     'alt:leading-zero': 84000, 'alt:leading-zero/00': 27000, 'alt:leading-zero/a': 52000,
                     'alt:leading-zero/c': 42000, 'alt:leading-zero/d': 13000, 'alt:mode:bytes': 220000,
                     'alt:mode:str': 220000, 'alt:no-final-newline/command': 5300,
                     'alt:no-final-newline/command/src:disk': 750, 'alt:no-final-newline/command/src:file': 1100,
                     'alt:no-final-newline/command/src:iter': 1100, 'alt:no-final-newline/command/src:list': 1100,
                     'alt:no-final-newline/command/src:tuple': 1100, 'alt:no-final-newline/dot': 49000,
                     'alt:no-final-newline/dot/src:disk': 7100, 'alt:no-final-newline/dot/src:file': 10000,
                     'alt:no-final-newline/dot/src:iter': 10000, 'alt:no-final-newline/dot/src:list': 10000,
                     'alt:no-final-newline/dot/src:tuple': 10000, 'alt:same-place/append-then-remove': 17000,
                     'alt:same-place/remove-then-append': 97000, 'alt:src:disk': 23000, 'alt:src:file': 57000,
                     'alt:src:iter': 57000, 'alt:src:list': 57000, 'alt:src:tuple': 31000, 'alt:unmerged/changes': 6200,
                     'alt:unmerged/removals': 5700, 'alt:via:alt': 140000, 'reject-class:missing-number/zero': 15000,
                     'reject-class:range-on-append/zero-first': 19000,
                     'reject-class:range-on-append/zero-second': 19000, 'reject-class:three-numbers/zero': 24000,
                     'zero:malformed': 79000, 'zero:malformed/src:file': 26000, 'zero:malformed/src:iter': 26000,
                     'zero:malformed/src:list': 26000, 'zero:second-on-c': 16000, 'zero:second-on-cd': 27000,
                     'zero:second-on-cd/no-analog': 15000, 'zero:second-on-cd/spelled:0': 13000,
                     'zero:second-on-cd/spelled:00': 6800, 'zero:second-on-cd/spelled:000': 6800,
                     'zero:second-on-cd/src:file': 9200, 'zero:second-on-cd/src:iter': 9100,
                     'zero:second-on-cd/src:list': 9200, 'zero:second-on-cd/with-analog': 12000,
                     'zero:second-on-d': 11000}},
}
DIFFE_FLOOR = {'quick': 2700, 'thorough': 145000}      # only demanded when `diff` is installed
DIFFE_BRK_FLOOR = {'quick': 160, 'thorough': 8500}     # ... of which scripts whose text blocks carry an embedded break
DIFFE_EMPTY_FLOOR = {'quick': 470, 'thorough': 16000}   # ... `diff -e` of two equal files (prints nothing)
DIFFE_EMPTY_FILE_FLOOR = {'quick': 110, 'thorough': 4000}    # ... of which both files are empty

ALPHA = ['a', 'b', 'c', '', 'x y', '..', '. ', ' .', '.x', '...', '1a', '2,3d', 'd', '0a', '3c', '1,2c', 'a.',
         'é', '١a', '\t', 'x\r', '.\r', 's/.//', 'w', 'q']
SRC = ('list', 'iter', 'file')
# how the caller consumes the patches besides piping the iterator straight into patch_lines (always done):
#   list / tuple - patches = list(...) / tuple(...), then patch_lines(lines, patches)
#   two-pass     - iterate once (remember what each yielded triple looked like at that moment), read the collected
#                  list once more without touching it (validate), apply it, apply it again to a second copy
USES = ('list', 'tuple', 'two-pass')
SRC_BRK = ('list', 'iter', 'file', 'disk')
SRC_BRK_W = ('list', 'iter', 'file') * 3 + ('disk',) * 2        # random choice: a real file costs ~10x a StringIO
SRC_ALT = ('list', 'tuple', 'iter', 'file', 'disk')             # other-spellings class: the script may also sit in a tuple
SRC_ALT_W = ('list', 'tuple', 'iter', 'file') * 3 + ('disk',) * 2
# str.splitlines() boundaries other than LF (bytes.splitlines() only knows CR; VT and FF are the bytes a
# "whitespace" / universal-newline shortcut would also touch)
BREAKS = ['\r', '\x0b', '\x0c', '\x1c', '\x1d', '\x1e', '\x85', '\u2028', '\u2029']
BREAKSET = frozenset(BREAKS)
# {B} = the break character, {C} = a second (different) one, {U} = unique id
BRK_TEMPLATES = ['a{B}b', 'x{B}.', '{B}.', '.{B}x', '.{B}', '.{B}.', '{B}', '{B}{B}', 'x{B}1d', '1a{B}.', '2,3c{B}y',
                 'p{B}q{C}r', 'x{B}\r', '{B}x']
BRK_TEMPLATES_W = BRK_TEMPLATES + ['a{B}b', 'x{B}.', 'x{B}.', 'N{U}{B}b', 'N{U}{B}.', 'N{U}{B}b{C}.', '.{B}N{U}']
# anything printable that is not a/c/d, not a digit (that would be 'missing letter'), not ',' and not blank
BAD_LETTERS = [ch for ch in map(chr, range(33, 127)) if ch not in 'acd,' and not ch.isdigit()]


# ---------------------------------------------------------------------------
# generators

def _content(r, uid):
    if r.random() < 0.5:
        uid[0] += 1
        return 'N%d\n' % uid[0]
    return r.choice(ALPHA) + '\n'


def _pos(r, n):
    """Position in 0..n biased to the ends."""
    k = r.random()
    if k < 0.25:
        return 0
    if k < 0.5:
        return n
    if k < 0.6:
        return max(0, n - 1)
    return r.randint(0, n)


_content_plain = _content


def brk_line(r, uid=None, tpl=None, b=None):
    """One content line with a non-LF line-boundary character in it."""
    b = b or r.choice(BREAKS)
    c = r.choice([x for x in BREAKS if x != b])
    tpl = tpl or r.choice(BRK_TEMPLATES_W)
    if '{U}' in tpl:
        if uid is None:
            tpl = tpl.replace('N{U}', 'x')
        else:
            uid[0] += 1
            tpl = tpl.replace('{U}', str(uid[0]))
    return tpl.replace('{B}', b).replace('{C}', c) + '\n'


def _content_brk(r, uid):
    return brk_line(r, uid) if r.random() < 0.6 else _content(r, uid)


def _old_brk(r):
    return brk_line(r) if r.random() < 0.5 else r.choice(ALPHA) + '\n'


def _old_plain(r):
    return r.choice(ALPHA) + '\n'


def gen_pair(r, thorough=False, brk=False):
    _content, _oldline = (_content_brk, _old_brk) if brk else (_content_plain, _old_plain)
    uid = [0]
    n = r.choice([0, 1, 1, 2, 2, 3, 3, 4, 5, 6, 8, 10, 12])
    if thorough and r.random() < 0.03:
        n = r.randint(13, 40)
    if r.random() < 0.5:
        old = ['L%d\n' % i for i in range(1, n + 1)]
    else:
        old = [_oldline(r) for _ in range(n)]
    k = r.random()
    if k < 0.05:
        return old, []
    if k < 0.10:
        return [], (old or [_content(r, uid)])
    if k < 0.15:
        return old, [_content(r, uid) for _ in range(r.randint(1, 6))]       # unrelated / full replacement
    if k < 0.20:
        return old, [_oldline(r) for _ in range(r.randint(0, 8))]             # partly overlapping by chance
    new = list(old)
    for _ in range(r.choice([0, 1, 1, 1, 2, 2, 3, 4])):
        op = r.choice('iidrr')
        if op == 'i':
            p = _pos(r, len(new))
            new[p:p] = [_content(r, uid) for _ in range(r.choice([1, 1, 2, 3]))]
        elif new:
            p = min(_pos(r, len(new)), len(new) - 1)
            run = r.choice([1, 1, 1, 2, 3])
            if op == 'd':
                del new[p:p + run]
            else:
                new[p:p + run] = [_content(r, uid) for _ in range(r.choice([1, 1, 2, 3]))]
    return old, new


def enum_pairs():
    """Complete sub-space: old = first n of 4 distinct lines, new = every
    sequence of length <= 5 over those lines plus one fresh line."""
    base = ['1\n', '2\n', '3\n', '4\n']
    for n in range(0, 5):
        old = base[:n]
        alpha = old + ['N\n']
        for m in range(0, 6):
            for new in itertools.product(alpha, repeat=m):
                yield old, list(new)


def enum_brk_pairs():
    """Complete matrix: break character x template x placement of the resulting line X (and a second such line Y)
    relative to three plain lines."""
    base = ['1\n', '2\n', '3\n']
    for bi, b in enumerate(BREAKS):
        c = BREAKS[(bi + 1) % len(BREAKS)]
        for ti, tpl in enumerate(BRK_TEMPLATES):
            x = tpl.replace('{B}', b).replace('{C}', c) + '\n'
            y = BRK_TEMPLATES[(ti + 1) % len(BRK_TEMPLATES)].replace('{B}', b).replace('{C}', c) + '\n'
            if y == x:
                y = 'y' + x
            for p in range(4):                                       # append at 0 / middle / end
                yield base, base[:p] + [x] + base[p:]
            for p in range(3):                                       # change one line
                yield base, base[:p] + [x] + base[p + 1:]
            yield base, [x]                                          # change everything
            yield base, [base[0], x, y]                              # change a range, two such lines in one block
            yield base, [x, 'k\n', y]                                # two blocks (or one), first and last line
            for p in range(3):                                       # such a line is deleted
                yield base[:p] + [x] + base[p:], base
            yield [x, '2\n', y], [x, 'n\n', y]                       # such lines only pass through patch_lines
            yield [x, '2\n', '3\n'], [x, '2\n', '3\n', y]            # kept in old, appended after the last line
            yield [x], [y]
            yield [], [x]
            yield [x], []
            yield [], [x, y]


def gen_multiblock(r, brk=False):
    """(old, new) built from 3..5 hunks separated by unique kept lines, so that the script has >= 3 text blocks
    (the caller verifies)."""
    content = _content_brk if brk else _content
    uid = [0]
    k = [0]

    def kept(n):
        out = []
        for _ in range(n):
            k[0] += 1
            out.append('K%d\n' % k[0])
        return out
    old, new = [], []
    for j in range(r.choice([3, 3, 3, 4, 5])):
        keep = kept(r.randint(0 if j == 0 else 1, 3))
        old += keep
        new += keep
        if r.random() < 0.6:                                         # c (one line or a range)
            old += ['O%d.%d\n' % (j, i) for i in range(r.choice([1, 1, 2, 3]))]
        new += [content(r, uid) for _ in range(r.choice([1, 1, 2, 3]))]
        if r.random() < 0.15:                                        # a d command in between
            keep = kept(1)
            old += keep + ['D%d\n' % j]
            new += keep
    keep = kept(r.choice([0, 0, 1, 2]))
    return old + keep, new + keep


def corrupt(r, script, blocks, brk=False):
    """Corrupt exactly one command of a well-formed script.  -> (class, index, new_script) or None."""
    blk = r.choice(blocks)
    i = blk['cmd']
    line = script[i]
    letter, address = blk['letter'], line[:-2]
    assert line == address + letter + '\n'
    cls = r.choice(['bad-letter', 'bad-letter', 'missing-letter', 'missing-number', 'three-numbers',
                    'range-on-append', 'range-on-append', 'blanks', 'blanks', 'sign', 'junk-suffix', 'non-decimal'])
    if brk and r.random() < 0.5:
        cls = 'break-in-command'
        b = r.choice(BREAKS)
        bad = r.choice([b + line, address + b + letter + '\n', address + letter + b + '\n', 'x' + b + line,
                        '.' + b + line, address + letter + b + '.\n', address.replace(',', ',' + b) + b + letter + '\n',
                        address + letter + b + line, b + '\n', address + letter + '\r' + b + '\n'])
    if cls == 'range-on-append':
        ablocks = [b for b in blocks if b['letter'] == 'a']
        if not ablocks:
            cls = 'bad-letter'
        else:
            blk = r.choice(ablocks)
            i = blk['cmd']
            n = int(script[i][:-2])
            bad = r.choice(['%d,%da\n' % (n, n), '%d,%da\n' % (n, n + 1), '%d,%da\n' % (max(n, 1), max(n, 1)),
                            '%d,%da\n' % (max(n - 1, 0), n)])
    if cls == 'bad-letter':
        bad = address + r.choice(BAD_LETTERS) + '\n'
    elif cls == 'missing-letter':
        bad = address + '\n'
    elif cls == 'missing-number':
        bad = r.choice([letter, ',' + address + letter, address + ',' + letter, ',' + letter, ',,' + letter]) + '\n'
    elif cls == 'three-numbers':
        first = address.split(',')[0]
        bad = '%s,%s,%s%s\n' % (first, first, first, letter)
    elif cls == 'blanks':
        bad = r.choice([' ' + line, address + ' ' + letter + '\n', address + letter + ' \n', '\t' + line,
                        address.replace(',', ', ') + ' ' + letter + '\n', '\n', ' \n',
                        address + letter + '\t\n'])
    elif cls == 'sign':
        bad = r.choice(['-', '+']) + line
    elif cls == 'junk-suffix':
        bad = address + letter + r.choice(['d', 'a', '1', '!', 'p', '\r', ',', '.']) + '\n'
    elif cls == 'non-decimal':
        bad = r.choice(['0x' + address, address.split(',')[0] + '.0', '1e1', '$', '.', "'a", '/x/', '%']) + letter + '\n'
    s = list(script)
    s[i] = bad
    return cls, i, s


def truncations(r, script, blocks, blk=None):
    """Cuts inside one text block (a random one unless `blk` is given): (tag, cut_script)."""
    tb = [b for b in blocks if b['letter'] != 'd']
    if not tb:
        return
    if blk is None:
        blk = r.choice(tb)
    t, d = blk['text'], blk['dot']
    yield 'at-block-start', script[:t]                 # command, then end of stream
    if d > t:
        yield 'before-dot', script[:d]                 # whole text, no '.'
        if d - t > 1:
            yield 'mid-block', script[:r.randint(t + 1, d - 1)]
        last = script[d - 1]
        if len(last) > 1:                              # cut inside the last text line (no newline at end of stream)
            cutline = last[:r.randint(1, len(last) - 1)]
            if cutline != '.':
                yield 'mid-line', script[:d - 1] + [cutline]
            if last[:-1] != '.' and last[:-1] != cutline:      # only the final newline is missing
                yield 'no-final-newline', script[:d - 1] + [last[:-1]]


# ---------------------------------------------------------------------------
# OTHER SPELLINGS of the same edits (scripts from diff writers other than `diff -e`)

def _pad(r, n, zeros):
    s = '%d' % n
    if zeros and r.random() < zeros:
        s = '0' * r.choice([1, 1, 2, 3]) + s
    return s


def _cmd(r, letter, j1, j2, zeros=0.0, nn=0.0):
    """Command line for the 0-based half-open slice [j1, j2) (an append goes after line j1)."""
    if letter == 'a':
        return _pad(r, j1, zeros) + 'a\n'
    if j2 - j1 == 1 and r.random() >= nn:
        return _pad(r, j1 + 1, zeros) + letter + '\n'
    return '%s,%s%s\n' % (_pad(r, j1 + 1, zeros), _pad(r, j2, zeros), letter)


def _assemble(r, pieces, zeros=0.0, nn=0.0, cut_newline=False):
    script = []
    for letter, j1, j2, text in pieces:
        script.append(_cmd(r, letter, j1, j2, zeros, nn))
        if letter != 'd':
            script.extend(text)
            script.append('.\n')
    if script and cut_newline:
        script[-1] = script[-1][:-1]              # '.' (or the last d command) at end of stream, no newline
    return script


def alt_script(r, old, new):
    """An ed script for (old, new) in spellings GNU diff does not emit (see RULE, OTHER SPELLINGS).  Every piece acts
    on a slice at or below the slice of the piece before it (non-overlapping, descending), so sequential ed semantics
    and the pdiff convention agree on its meaning; the caller still has it vouched by the reference interpreter."""
    blocks = [b['patch'] for b in edscript.make_ed_script_indexed(old, new)[1]]
    allc = r.random() < 0.25                       # every removal written as c + empty text
    zeros = r.choice([0.0, 0.0, 0.5, 1.0])
    nn = r.choice([0.0, 0.0, 0.3, 1.0])            # N,N for a single line
    p_noop = r.choice([0.0, 0.3, 0.6]) if blocks else 1.0
    pieces = []

    def removal(j1, j2):
        pieces.append(('c' if allc or r.random() < 0.5 else 'd', j1, j2, []))

    def region(e1, e2, has_upper, has_lower):
        """Kept lines old[e1:e2]: a no-op append or a change by the identical lines."""
        if r.random() >= p_noop:
            return
        if r.random() < 0.5:
            cand = list(range(e1 + 1, e2))         # strictly inside, or at a file end no hunk touches
            if not has_upper and (e2 > e1 or not has_lower):
                cand.append(e2)
            if not has_lower and (e2 > e1 or not has_upper) and e1 not in cand:
                cand.append(e1)
            if cand:
                p = r.choice(cand)
                pieces.append(('a', p, p, []))
        elif e2 > e1:
            p = r.randint(e1, e2 - 1)
            q = min(e2, p + r.choice([1, 1, 2, 3]))
            pieces.append(('c', p, q, list(old[p:q])))

    def block(i1, i2, text):
        if i2 == i1:
            pieces.append(('a', i1, i1, text))
            return
        if i2 - i1 >= 2 and r.random() < 0.45:     # one hunk written as two adjacent ones
            m = r.randint(i1 + 1, i2 - 1)
            k = r.randint(0, len(text))
            for (j1, j2, t) in ((m, i2, text[k:]), (i1, m, text[:k])):
                if t:
                    pieces.append(('c', j1, j2, t))
                else:
                    removal(j1, j2)
            return
        if not text:
            removal(i1, i2)
            return
        k = r.random()
        if k < 0.4:
            pieces.append(('c', i1, i2, text))
        elif k < 0.7:                              # remove, then append at the same place
            removal(i1, i2)
            pieces.append(('a', i1, i1, text))
        else:                                      # append after the range, then remove the range
            pieces.append(('a', i2, i2, text))
            removal(i1, i2)

    prev_lo, has_upper = len(old), False
    for (i1, i2, text) in blocks:
        region(i2, prev_lo, has_upper, True)
        block(i1, i2, list(text))
        prev_lo, has_upper = i1, True
    region(0, prev_lo, has_upper, False)
    script = _assemble(r, pieces, zeros, nn, r.random() < 0.3)
    if script and not _alt_profile(old, edscript.parse_ed_script(script), script):
        script = _assemble(r, pieces, 1.0, 1.0, r.random() < 0.5)       # it came out in `diff -e` shape: respell it
    return script


def enum_alt_scripts():
    """Complete sub-space of single commands (and two commands at the same place) over files of 5, 1 and 0 lines, in every
    spelling of the command line: -> (old, script).  The target is what the reference interpreter makes of it."""
    pads = ('', '0', '00')

    def lines_of(letter, addr, text, nl):
        s = [addr + letter + '\n']
        if letter != 'd':
            s += list(text) + ['.\n']
        if not nl:
            s[-1] = s[-1][:-1]
        return s

    def addrs(letter, j1, j2):
        if letter == 'a':
            return ['%s%d' % (p, j1) for p in pads]
        out = []
        if j2 - j1 == 1:
            out += ['%s%d' % (p, j1 + 1) for p in pads]
        out += ['%s%d,%s%d' % (p, j1 + 1, q, j2) for p in pads for q in pads]
        return out

    for n in (5, 1, 0):
        old = ['L%d\n' % i for i in range(1, n + 1)]
        singles = [('a', p, p, t) for p in range(n + 1) for t in ([], ['x\n'], ['x\n', 'y\n'])]
        ranges = [(j1, j2) for j1 in range(n) for j2 in range(j1 + 1, n + 1)]
        for j1, j2 in ranges:
            singles.append(('d', j1, j2, []))
            for t in ([], old[j1:j2], ['x\n'], ['x\n', '1a\n']):
                singles.append(('c', j1, j2, t))
        for letter, j1, j2, text in singles:
            for addr in addrs(letter, j1, j2):
                for nl in (True, False):
                    yield old, lines_of(letter, addr, text, nl)
        for j1, j2 in ranges:
            rng = '%d' % (j1 + 1) if j2 - j1 == 1 else '%d,%d' % (j1 + 1, j2)
            for rem in 'dc':
                for t in (['x\n'], ['x\n', 'y\n']):
                    for nl in (True, False):
                        # remove, then append at the same place / append after the range, then remove it
                        yield old, lines_of(rem, rng, [], True) + lines_of('a', '%d' % j1, t, nl)
                        yield old, lines_of('a', '%d' % j2, t, True) + lines_of(rem, rng, [], nl)
                for noop in range(n + 1):          # a no-op append anywhere that keeps the script descending
                    if noop >= j2:
                        yield old, lines_of('a', '%d' % noop, [], True) + lines_of(rem, rng, [], True)
                    if noop <= j1:
                        yield old, lines_of(rem, rng, [], True) + lines_of('a', '%d' % noop, [], True)
                for m in range(j1 + 1, j2):        # one removal written as two adjacent ones
                    up = '%d' % (m + 1) if j2 - m == 1 else '%d,%d' % (m + 1, j2)
                    lo = '%d' % (j1 + 1) if m - j1 == 1 else '%d,%d' % (j1 + 1, m)
                    for rem2 in 'dc':
                        yield old, lines_of(rem, up, [], True) + lines_of(rem2, lo, [], True)


# zero-valued but present address fields (error clause)
ZERO_APPEND_CLASSES = ('range-on-append/zero-second', 'range-on-append/zero-first', 'three-numbers/zero',
                       'missing-number/zero')


def zero_variants(r, script, blocks):
    """From a well-formed script: cases whose ONE touched command carries a zero-valued address field that is present.
    Appends ('N,0a', 'N,00a', '0,Na', ...) and surplus / missing numbers are malformed whatever the number says
    (-> M.reject); 'N,0c' / 'N,0d' are well-formed syntax with a bad range and are judged against the same command with
    a NON-ZERO bad second address (-> zero-second)."""
    ab = [b for b in blocks if b['letter'] == 'a']
    cb = [b for b in blocks if b['letter'] != 'a']
    z = r.choice(['0', '0', '00', '000'])
    if ab:
        blk = r.choice(ab)
        i = blk['cmd']
        n = int(script[i][:-2])
        for cls, bad in (('range-on-append/zero-second', r.choice(['%d,%sa\n' % (n, z), '0%d,%sa\n' % (n, z)])),
                         ('range-on-append/zero-first', r.choice(['0,%da\n' % n, '00,%da\n' % max(n, 1), '0,%sa\n' % z]))):
            s = list(script)
            s[i] = bad
            yield {'kind': 'malformed', 'script': s, 'class': cls, 'at': i}
    blk = r.choice(blocks)
    i = blk['cmd']
    letter = blk['letter']
    first = script[i][:-2].split(',')[0]
    cls, bad = r.choice([('three-numbers/zero', '%s,%s,%s%s\n' % (first, z, z, letter)),
                         ('three-numbers/zero', '%s,%s,%s%s\n' % (z, z, z, letter)),
                         ('three-numbers/zero', '%s,%s,%s%s\n' % (first, first, z, letter)),
                         ('missing-number/zero', ',%s%s\n' % (z, letter)),
                         ('missing-number/zero', '%s,%s\n' % (z, letter))])
    s = list(script)
    s[i] = bad
    yield {'kind': 'malformed', 'script': s, 'class': cls, 'at': i}
    if cb:
        far = [b for b in cb if b['patch'][0] >= 1]        # first address >= 2: a non-zero bad second address exists
        blk = r.choice(far if far and r.random() < 0.8 else cb)
        i = blk['cmd']
        letter = blk['letter']
        n = int(script[i][:-2].split(',')[0])
        s, a, single = list(script), None, list(script)
        s[i] = '%d,%s%s\n' % (n, z, letter)
        single[i] = '%d%s\n' % (n, letter)
        if n >= 2:
            a = list(script)
            a[i] = '%d,%d%s\n' % (n, r.randint(1, n - 1), letter)
        yield {'kind': 'zero-second', 'script': s, 'analog': a, 'single': single, 'at': i}


def enum_zero_cases():
    """Complete: every 'N,Za' (N = 0..6, Z = 0 / 00 / 000, N with and without a leading zero) alone and after a valid
    command; every 'N,Zc' / 'N,Zd' with every non-zero bad second address K < N as its analog; '0,0d', '1,0c' and the
    like, which have no such analog, are only exercised."""
    old = ['L%d\n' % i for i in range(1, 7)]
    for n in range(0, 7):
        for z in ('0', '00', '000'):
            for first in ('%d' % n, '0%d' % n):
                for head in ([], ['6d\n']):
                    yield {'kind': 'malformed', 'old': old, 'script': head + ['%s,%sa\n' % (first, z), 'x\n', '.\n'],
                           'class': 'range-on-append/zero-second', 'at': len(head)}
    for n in range(0, 7):
        for z in ('0', '00'):
            for letter in 'cd':
                tail = ['x\n', '.\n'] if letter == 'c' else []
                for k in (list(range(1, n)) or [None]):
                    yield {'kind': 'zero-second', 'old': old, 'script': ['%d,%s%s\n' % (n, z, letter)] + tail,
                           'analog': None if k is None else ['%d,%d%s\n' % (n, k, letter)] + tail,
                           'single': ['%d%s\n' % (n, letter)] + tail, 'at': 0}


# ---------------------------------------------------------------------------
# framework hooks

def setup(ctx):
    ctx.extra['diff_e'] = 'available' if shutil.which('diff') else 'absent'
    ctx.extra['exhaustive_subspaces'] = ['old = first n<=4 of 4 distinct lines x new = every sequence of length <= 5 over '
                                         'those lines + 1 fresh line (5593 pairs), str and bytes',
                                         '9 non-LF line-boundary characters x %d templates x 19 placements of such a line '
                                         '(%d pairs), each through two source kinds, str and bytes, and every cut of '
                                         'every text block of their scripts'
                                         % (len(BRK_TEMPLATES), sum(1 for _ in enum_brk_pairs())),
                                         'OTHER SPELLINGS: every single a / c / d command over files of 5, 1 and 0 lines (text: '
                                         'none, the identical lines, 1 or 2 new lines) x every spelling of its command line '
                                         '(leading 0 / 00 on either address, N,N for one line, with / without the final newline); '
                                         'remove + append at the same place in both orders, a no-op append before / after a '
                                         'removal, one removal as two adjacent ones, removals as d or as c with no text (%d scripts)'
                                         % sum(1 for _ in enum_alt_scripts()),
                                         'ZERO-VALUED ADDRESS FIELDS: N,Za for N = 0..6, Z = 0 / 00 / 000; N,Zc and N,Zd with '
                                         'every non-zero bad second address as the analog (%d cases)'
                                         % sum(1 for _ in enum_zero_cases())]
    ctx.extra['self_check'] = {'reference_vouched': 0, 'reference_refused': 0, 'diffe_outside_subset': 0}


def conclusive(tier, counters, monitor_evals, extra):
    if extra.get('diff_e') == 'available' and monitor_evals.get('M.diffe', 0) < DIFFE_FLOOR[tier]:
        return 'diff is installed but only %d diff -e scripts were evaluated (floor %d)' % (
            monitor_evals.get('M.diffe', 0), DIFFE_FLOOR[tier])
    if extra.get('diff_e') == 'available' and counters.get('brk:apply/via:diffe', 0) < DIFFE_BRK_FLOOR[tier]:
        return 'diff is installed but only %d diff -e scripts with an embedded line-boundary character were evaluated ' \
               '(floor %d)' % (counters.get('brk:apply/via:diffe', 0), DIFFE_BRK_FLOOR[tier])
    if extra.get('diff_e') == 'available':
        for name, floor in (('empty:via:diffe', DIFFE_EMPTY_FLOOR[tier]),
                            ('empty:old-empty/via:diffe', DIFFE_EMPTY_FILE_FLOOR[tier])):
            if counters.get(name, 0) < floor:
                return 'diff is installed but counter %s = %d (floor %d)' % (name, counters.get(name, 0), floor)
    if counters.get('src:file-cannot-carry', 0):
        return '%d file sources did not hand the script lines over unchanged (harness assumption broken)' \
               % counters.get('src:file-cannot-carry', 0)
    return None


def cases(ctx):
    thorough = ctx.tier == 'thorough'
    ru = ctx.rng('use')                  # own stream: the pair / script streams stay what they were
    for i, (old, new) in enumerate(enum_pairs()):
        if ctx.mine(i):
            yield {'kind': 'pair', 'old': old, 'new': new, 'src': SRC[i % 3], 'split': False, 'mode': 'both',
                   'use': 'all', 'from': 'enum'}
    r = ctx.rng('pairs')
    for i in range(ctx.size(PAIRS['quick'], PAIRS['thorough'])):
        old, new = gen_pair(r, thorough)
        yield {'kind': 'pair', 'old': old, 'new': new, 'src': r.choice(SRC), 'split': r.random() < 0.15,
               'mode': 'both', 'use': ru.choice(USES), 'from': 'random'}
    r = ctx.rng('malformed')
    n = 0
    want = ctx.size(MALFORMED['quick'], MALFORMED['thorough'])
    while n < want:
        old, new = gen_pair(r, thorough)
        script, blocks = edscript.make_ed_script_indexed(old, new, split_replace=r.random() < 0.15)
        if not blocks:
            continue
        n += 1
        for _ in range(2):
            cls, at, bad = corrupt(r, script, blocks)
            yield {'kind': 'malformed', 'old': old, 'script': bad, 'class': cls, 'at': at, 'src': r.choice(SRC),
                   'mode': 'both'}
        for tag, cut in truncations(r, script, blocks):
            yield {'kind': 'malformed', 'old': old, 'script': cut, 'class': 'truncation', 'cut': tag,
                   'src': r.choice(SRC), 'mode': 'both'}
    if shutil.which('diff'):
        r = ctx.rng('diffe')
        for i in range(ctx.size(DIFFE['quick'], DIFFE['thorough'])):
            old, new = gen_pair(r, thorough)
            yield {'kind': 'diffe', 'old': old, 'new': new, 'src': r.choice(SRC), 'mode': 'both', 'use': ru.choice(USES)}
    for case in brk_cases(ctx, thorough):
        yield case
    for case in empty_cases(ctx, thorough):
        yield case
    for case in alt_cases(ctx, thorough):
        yield case
    for case in zero_cases(ctx, thorough):
        yield case


def _latin1(*line_lists):
    return all(ord(ch) < 256 for lines in line_lists for l in lines for ch in l)


def _enc(r, *line_lists):
    return 'latin-1' if r.random() < 0.4 and _latin1(*line_lists) else 'utf-8'


def brk_cases(ctx, thorough):
    """Line-boundary class and multi-block truncations (see RULE)."""
    # complete matrix, application + the cuts of every text block
    ru = ctx.rng('brk-use')
    r = ctx.rng('brk-enum')
    for i, (old, new) in enumerate(enum_brk_pairs()):
        if not ctx.mine(i):
            continue
        old, new = list(old), list(new)
        for j, src in enumerate((SRC_BRK[i % 4], SRC_BRK[(i % 4 + 1 + (i // 4) % 3) % 4])):   # two different source kinds
            yield {'kind': 'pair', 'old': old, 'new': new, 'src': src, 'split': False, 'mode': 'both',
                   'enc': 'latin-1' if _latin1(old, new) and (i // 2) % 2 else 'utf-8',
                   'use': USES[(i // 4 + j) % 3], 'from': 'brk-enum'}
        script, blocks = edscript.make_ed_script_indexed(old, new)
        for blk in blocks:
            if blk['letter'] != 'd':
                for tag, cut in truncations(r, script, blocks, blk):
                    yield {'kind': 'malformed', 'old': old, 'script': cut, 'class': 'truncation', 'cut': tag,
                           'src': r.choice(SRC_BRK_W), 'mode': 'both', 'enc': _enc(r, old, cut), 'brk': True}
    # random pairs
    r = ctx.rng('brk-pairs')
    for i in range(ctx.size(BRK_PAIRS['quick'], BRK_PAIRS['thorough'])):
        old, new = gen_pair(r, thorough, brk=True)
        yield {'kind': 'pair', 'old': old, 'new': new, 'src': r.choice(SRC_BRK_W), 'split': r.random() < 0.15,
               'mode': 'both', 'enc': _enc(r, old, new), 'use': ru.choice(USES), 'from': 'brk-random'}
    # malformed scripts over the same content
    r = ctx.rng('brk-malformed')
    n = 0
    want = ctx.size(BRK_MALFORMED['quick'], BRK_MALFORMED['thorough'])
    while n < want:
        old, new = gen_pair(r, thorough, brk=True)
        script, blocks = edscript.make_ed_script_indexed(old, new, split_replace=r.random() < 0.15)
        if not blocks:
            continue
        n += 1
        for _ in range(2):
            cls, at, bad = corrupt(r, script, blocks, brk=True)
            yield {'kind': 'malformed', 'old': old, 'script': bad, 'class': cls, 'at': at, 'src': r.choice(SRC_BRK_W),
                   'mode': 'both', 'enc': _enc(r, old, bad), 'brk': True}
        for tag, cut in truncations(r, script, blocks):
            yield {'kind': 'malformed', 'old': old, 'script': cut, 'class': 'truncation', 'cut': tag,
                   'src': r.choice(SRC_BRK_W), 'mode': 'both', 'enc': _enc(r, old, cut), 'brk': True}
    # scripts with >= 3 text blocks: applied, then cut inside the first / a middle / the last block
    r = ctx.rng('multiblock')
    n = 0
    want = ctx.size(MULTIBLOCK['quick'], MULTIBLOCK['thorough'])
    while n < want:
        brk = r.random() < 0.5
        old, new = gen_multiblock(r, brk)
        script, blocks = edscript.make_ed_script_indexed(old, new, split_replace=r.random() < 0.15)
        tb = [b for b in blocks if b['letter'] != 'd']
        if len(tb) < 3:
            continue
        n += 1
        src = SRC_BRK_W if brk else SRC
        if n % 4 == 0:
            yield {'kind': 'script', 'old': old, 'new': new, 'script': script, 'src': r.choice(src), 'mode': 'both',
                   'enc': _enc(r, old, new), 'use': 'all', 'from': 'multiblock'}
        roles = [('last', tb[-1]), ('middle', r.choice(tb[1:-1]))]
        if r.random() < 0.3:
            roles.append(('first', tb[0]))
        for role, blk in roles:
            for tag, cut in truncations(r, script, blocks, blk):
                yield {'kind': 'malformed', 'old': old, 'script': cut, 'class': 'truncation', 'cut': tag,
                       'role': role, 'nblocks': len(tb), 'src': r.choice(src), 'mode': 'both',
                       'enc': _enc(r, old, cut), 'brk': brk}
    if shutil.which('diff'):
        r = ctx.rng('brk-diffe')
        for i in range(ctx.size(BRK_DIFFE['quick'], BRK_DIFFE['thorough'])):
            old, new = gen_pair(r, thorough, brk=True)
            yield {'kind': 'diffe', 'old': old, 'new': new, 'src': r.choice(SRC_BRK_W), 'mode': 'both',
                   'enc': _enc(r, old, new), 'use': ru.choice(USES), 'from': 'brk-diffe'}


EMPTY_FILES = [[], ['1\n'], ['1\n', '2\n', '3\n'], ['\n'], ['.x\n', '1a\n', '..\n', '2,3d\n'], ['a\x85.\n', '\r\n']]


def empty_cases(ctx, thorough):
    """EMPTY SCRIPT: old == new (see RULE)."""
    have_diff = bool(shutil.which('diff'))
    i = 0
    for old in EMPTY_FILES:                                       # complete: file x source x use (x str / bytes)
        for src in SRC_BRK:
            for use in USES:
                for kind in (('pair', 'diffe') if have_diff else ('pair',)):
                    if ctx.mine(i):
                        yield {'kind': kind, 'old': list(old), 'new': list(old), 'src': src, 'split': False,
                               'mode': 'both', 'enc': 'latin-1' if _latin1(old) and i % 2 else 'utf-8', 'use': use,
                               'from': 'empty-enum'}
                    i += 1
    r = ctx.rng('empty')
    for kind, total in (('pair', EMPTY), ('diffe', EMPTY_DIFFE)):
        if kind == 'diffe' and not have_diff:
            continue
        for i in range(ctx.size(total['quick'], total['thorough'])):
            n = r.choice([0, 0, 1, 1, 2, 3, 5, 8, 12])
            k = r.random()
            if k < 0.3:
                old = ['L%d\n' % j for j in range(1, n + 1)]
            elif k < 0.65:
                old = [_old_plain(r) for _ in range(n)]
            else:
                old = [_old_brk(r) for _ in range(n)]
            yield {'kind': kind, 'old': old, 'new': list(old), 'src': r.choice(SRC_BRK_W), 'split': False,
                   'mode': 'both', 'enc': _enc(r, old), 'use': r.choice(USES), 'from': 'empty-random'}


def alt_cases(ctx, thorough):
    """OTHER SPELLINGS (see RULE): the complete single-command matrix, then random pairs."""
    for i, (old, script) in enumerate(enum_alt_scripts()):
        if not ctx.mine(i):
            continue
        try:
            new = edscript.apply_ed_script(old, script)
        except edscript.EdScriptError as e:            # my own enumeration is wrong: say so, accuse nobody
            ctx.inconclusive.append('reference interpreter refuses an enumerated alt-spelling script %r: %s' % (script, e))
            continue
        yield {'kind': 'script', 'old': list(old), 'new': new, 'script': script, 'src': SRC_ALT[(i // 4) % 5],
               'mode': 'both', 'use': USES[(i // 4) % 3], 'from': 'alt-enum', 'via': 'alt'}
    r = ctx.rng('alt-pairs')
    for i in range(ctx.size(ALT_PAIRS['quick'], ALT_PAIRS['thorough'])):
        brk = r.random() < 0.15
        old, new = gen_pair(r, thorough, brk=brk)
        script = alt_script(r, old, new)
        yield {'kind': 'script', 'old': old, 'new': new, 'script': script, 'src': r.choice(SRC_ALT_W), 'mode': 'both',
               'enc': _enc(r, old, new), 'use': r.choice(USES), 'from': 'alt-random', 'via': 'alt'}


def zero_cases(ctx, thorough):
    """ZERO-VALUED ADDRESS FIELDS (see RULE): the complete small matrix, then variants of random scripts."""
    for i, case in enumerate(enum_zero_cases()):
        if ctx.mine(i):
            case.update({'src': SRC[(i // 4) % 3], 'mode': 'both'})
            yield case
    r = ctx.rng('zero')
    n = 0
    want = ctx.size(ZERO['quick'], ZERO['thorough'])
    while n < want:
        old, new = gen_pair(r, thorough)
        script, blocks = edscript.make_ed_script_indexed(old, new, split_replace=r.random() < 0.15)
        if not blocks:
            continue
        n += 1
        for case in zero_variants(r, script, blocks):
            case.update({'old': old, 'src': r.choice(SRC), 'mode': 'both'})
            yield case


# ---------------------------------------------------------------------------
# execution

def _conv(lines, mode, enc='utf-8'):
    return [l.encode(enc) for l in lines] if mode == 'bytes' else list(lines)


def _case_enc(case, *line_lists):
    enc = case.get('enc', 'utf-8')
    if enc == 'latin-1' and not _latin1(*line_lists):
        enc = 'utf-8'
    return enc


def _file_dir(ctx):
    """Directory for the real files of the 'disk' source: RAM-backed when the box has one (a real OS file either
    way - FileIO + BufferedReader / TextIOWrapper - but two orders of magnitude cheaper to rewrite per case)."""
    if os.path.isdir('/dev/shm') and os.access('/dev/shm', os.W_OK):
        d = tempfile.mkdtemp(prefix='vp-%s-' % PROP, dir='/dev/shm')
        ctx._tmpdirs.append(d)
        return d
    return ctx.tmpdir()


def _open_source(ctx, script, src, mode):
    """The script as the requested kind of source; never translates or re-splits anything (see ASSUMPTIONS)."""
    if src == 'iter':
        return (l for l in script)
    if src == 'tuple':
        return tuple(script)
    if src in ('file', 'disk'):
        if mode == 'bytes':
            nl, has_cr = None, False
        else:
            has_cr = any('\r' in l for l in script)
            nl = '\n' if has_cr else ''
        if src == 'file':
            return io.BytesIO(b''.join(script)) if mode == 'bytes' else io.StringIO(''.join(script), newline=nl)
        d = getattr(ctx, '_c18_fdir', None)
        if d is None:
            d = ctx._c18_fdir = _file_dir(ctx)
        path = os.path.join(d, 'script.ed')
        with open(path, 'wb') as f:
            f.write(b''.join(script) if mode == 'bytes' else ''.join(script).encode('utf-8'))
        return open(path, 'rb') if mode == 'bytes' else open(path, 'r', encoding='utf-8', newline=nl)
    return list(script)


def _source(ctx, script, src, mode):
    """-> (source object, effective src).  File sources are read back once first: a form that does not hand over
    exactly the script lines is not used for that script."""
    if src in ('file', 'disk'):
        f = _open_source(ctx, script, src, mode)
        try:
            carried = list(f) == list(script)
        finally:
            f.close()
        if not carried:
            ctx.count('src:file-cannot-carry')
            src = 'iter'
    return _open_source(ctx, script, src, mode), src


def _close(source):
    if hasattr(source, 'close'):
        source.close()


def _brk_profile(lines):
    """(embedded, at_end, tail_dot, head_dot, chars) over `lines`: a break character in the middle of a line / right
    before the newline / followed only by '.' / preceded only by '.'."""
    embedded = at_end = tail_dot = head_dot = False
    chars = set()
    for l in lines:
        body = l[:-1] if l.endswith('\n') else l
        if not BREAKSET.intersection(body):
            continue
        if body[-1] in BREAKSET:
            at_end = True
        for i, ch in enumerate(body[:-1]):
            if ch in BREAKSET:
                embedded = True
                chars.add(ch)
                if body[i + 1:] == '.':
                    tail_dot = True
                if body[:i] == '.':
                    head_dot = True
    return embedded, at_end, tail_dot, head_dot, chars


def _modes(case):
    m = case.get('mode', 'both')
    return ('str', 'bytes') if m == 'both' else (m,)


def _shape_counters(ctx, old, new, parsed):
    n = len(old)
    ctx.count('shape:hunks=%s' % (len(parsed) if len(parsed) < 3 else '3+'))
    if len(parsed) >= 2:
        ctx.count('shape:hunks>=2')
    if not old:
        ctx.count('shape:old-empty')
    if not new:
        ctx.count('shape:new-empty')
    prev_first = None
    for letter, n1, n2, text in parsed:
        if letter == 'a':
            ctx.count('cmd:a@0' if n1 == 0 else ('cmd:a@end' if n1 == n else 'cmd:a@mid'))
            first, last = n1, n1
        else:
            last = n1 if n2 is None else n2
            first = n1 - 1
            ctx.count('cmd:%s%s' % (letter, '1' if n2 is None else 'N'))
            if first == 0:
                ctx.count('cmd:%s@first' % letter)
            if last == n:
                ctx.count('cmd:%s@last' % letter)
            if first == 0 and last == n and letter == 'c' and len(parsed) == 1:
                ctx.count('shape:full-replace')
        if prev_first is not None and 0 <= prev_first - last <= 1:
            ctx.count('shape:adjacent-hunks')
        prev_first = first


def _alt_profile(old, parsed, script):
    """Spellings GNU diff does not emit, MEASURED on the script (never taken from the generator's label) by walking it
    with the reference interpreter's parse: -> set of tags."""
    tags = set()
    lines = list(old)
    k = 0
    prev = None                                        # (letter, first, last, has_text) of the command before
    removals_c = removals_d = 0
    for letter, n1, n2, text in parsed:
        raw = script[k]
        k += 1 + (0 if letter == 'd' else len(text) + 1)
        address = (raw[:-1] if raw.endswith('\n') else raw)[:-1]
        for part in address.split(','):
            if part != '%d' % int(part):
                tags.add('leading-zero')
                tags.add('leading-zero/%s' % letter)
                if int(part) == 0:
                    tags.add('leading-zero/00')
        if n2 is not None and n2 == n1:
            tags.add('N,N-range')
        if letter == 'a':
            first = last = n1
        else:
            first, last = n1 - 1, (n1 if n2 is None else n2)
        if letter == 'a' and not text:
            tags.add('a-empty')
            tags.add('a-empty/%s' % ('@0' if n1 == 0 else ('@end' if n1 == len(lines) else '@mid')))
        if letter == 'c' and not text:
            tags.add('c-empty')
            tags.add('c-empty/%s' % ('single' if last - first == 1 else 'range'))
            if last == len(lines):
                tags.add('c-empty/@last')
            removals_c += 1
        if letter == 'd':
            removals_d += 1
        if letter == 'c' and text and list(text) == lines[first:last]:
            tags.add('c-identity')
        if prev is not None:
            pl, pf, plast, ptext = prev
            removal = letter == 'd' or (letter == 'c' and not text)
            premoval = pl == 'd' or (pl == 'c' and not ptext)
            if premoval and letter == 'a' and text and first == pf:
                tags.add('same-place/remove-then-append')
            if pl == 'a' and ptext and removal and last == pf:
                tags.add('same-place/append-then-remove')
            if premoval and removal and last == pf:
                tags.add('unmerged/removals')
            if pl == 'c' and ptext and letter == 'c' and text and last == pf:
                tags.add('unmerged/changes')
        prev = (letter, first, last, bool(text))
        lines[first:last] = list(text)
    if removals_c and not removals_d:
        tags.add('all-removals-as-c')
    if script and not script[-1].endswith('\n'):
        tags.add('no-final-newline/%s' % ('dot' if script[-1] == '.' else 'command'))
    return tags


def _name_mechanism(ctx, ds, script_t, mode, src, want_patches):
    """Boundary check already failed; compare parsed triples with the reference
    triples only to name WHICH conversion is off."""
    try:
        source = _source(ctx, script_t, src, mode)[0]
        try:
            got = list(ds.patches_from_ed_script(source))
        finally:
            _close(source)
    except Exception as e:      # noqa - naming only
        return 'wellformed-script-rejected/%s' % type(e).__name__
    cmds = [l for l in script_t]
    if len(got) != len(want_patches):
        return 'patch-count-differs'
    # recover the letters from the reference parse
    letters = [p[0] for p in edscript.parse_ed_script(cmds)]
    for (g, w, letter) in zip(got, want_patches, letters):
        g = (g[0], g[1], list(g[2]))
        if g != w:
            if g[2] != w[2]:
                if g[2] and w[2] and type(g[2][0])().join(g[2]) == type(g[2][0])().join(w[2]):
                    return 'text-block-lines-resplit'
                return 'text-block-content-wrong'
            single = (w[1] - w[0] == 1)
            return {'a': 'append-index-conversion',
                    'c': 'change-index-conversion-%s' % ('single-line' if single else 'range'),
                    'd': 'delete-index-conversion-%s' % ('single-line' if single else 'range')}[letter]
    return 'patches-applied-out-of-script-order'


def check_apply(ctx, old, script, new, case, via):
    """M.apply on one (old, script, new), every requested mode."""
    from debian import debian_support as ds
    # self-check: my own reference interpreter must vouch for the script
    try:
        parsed = edscript.parse_ed_script(script)
        ok = edscript.in_domain(old) and edscript.in_domain(new) and edscript.apply_ed_script(old, script) == new
    except edscript.EdScriptError:
        ok = False
    if not ok:
        ctx.extra['self_check']['reference_refused'] += 1
        if via == 'diffe':
            ctx.extra['self_check']['diffe_outside_subset'] += 1
        ctx.inconclusive.append('reference interpreter does not vouch for a %s script (old=%r new=%r script=%r)'
                                % (via, old, new, script))
        return
    ctx.extra['self_check']['reference_vouched'] += 1
    _shape_counters(ctx, old, new, parsed)
    ctx.count('via:%s' % via)
    ctx.count('src:%s' % case.get('src', 'list'))
    if script:
        ctx.nontrivial(case={'old': old, 'new': new, 'script': script})
    src = case.get('src', 'list')
    enc = _case_enc(case, old, new, script)
    # line-boundary class: measured on the script itself, not taken from the generator's label
    text = [l for p in parsed for l in p[3]]
    embedded, at_end, tail_dot, head_dot, chars = _brk_profile(text)
    if embedded:
        ctx.count('brk:apply')
        ctx.count('brk:apply/src:%s' % src)
        ctx.count('brk:apply/via:%s' % via)
        ctx.count('brk:apply/enc:%s' % enc)
        if len([p for p in parsed if p[3]]) >= 2:
            ctx.count('brk:apply/text-blocks>=2')
        if tail_dot:
            ctx.count('brk:apply/tail-is-dot')
        if head_dot:
            ctx.count('brk:apply/head-is-dot')
        for ch in chars:
            ctx.count('brk:apply/U+%04X' % ord(ch))
    if at_end:
        ctx.count('brk:apply/break-before-newline')
    if script and _brk_profile([l for l in old if l in new])[0]:
        ctx.count('brk:apply/old-line-kept')
    alt = _alt_profile(old, parsed, script)             # spellings GNU diff does not emit
    if alt:
        ctx.count('alt:apply')
        ctx.count('alt:src:%s' % src)
        ctx.count('alt:via:%s' % via)
        for tag in alt:
            ctx.count('alt:%s' % tag)
            if tag.startswith('no-final-newline/'):
                ctx.count('alt:%s/src:%s' % (tag, src))
    empty = not script
    if empty:
        ctx.count('empty:apply')
        ctx.count('empty:src:%s' % src)
        ctx.count('empty:via:%s' % via)
        ctx.count('empty:old-empty' if not old else 'empty:old-nonempty')
        if not old:
            ctx.count('empty:old-empty/src:%s' % src)
            ctx.count('empty:old-empty/via:%s' % via)
        if _brk_profile(old)[0]:
            ctx.count('empty:old-has-break')
    uses = case.get('use', 'list')
    uses = USES if uses == 'all' else (() if uses == 'none' else (uses,))
    ntexts = [p[3] for p in parsed if p[3]]
    if len(parsed) >= 2:
        ctx.count('collect:patches>=2', len(uses))
    multi = len(ntexts) >= 2 and any(t != ntexts[0] for t in ntexts)    # where one shared text object cannot be right
    for mode in _modes(case):
        o, s, n = _conv(old, mode, enc), _conv(script, mode, enc), _conv(new, mode, enc)
        o0 = list(o)
        small = {'kind': 'script', 'old': old, 'script': script, 'new': new, 'src': src, 'mode': mode, 'enc': enc,
                 'use': 'none'}
        ctx.mon('M.apply')
        if via == 'diffe':
            ctx.mon('M.diffe')
        if embedded:
            ctx.mon('M.apply.brk')
        if empty:
            ctx.mon('M.apply.empty')
            ctx.count('empty:mode:%s' % mode)
        if alt:
            ctx.mon('M.apply.alt')
            ctx.count('alt:mode:%s' % mode)
            ctx.count('alt:collected', len(uses))
        ctx.count('mode:%s' % mode)
        source, eff = _source(ctx, s, src, mode)
        try:
            ret = ds.patch_lines(o, ds.patches_from_ed_script(source))
        except Exception as e:
            ctx.violation(('empty-script-rejected/%s' if empty else 'wellformed-script-rejected/%s') % type(e).__name__,
                          '%s script %r on %r raised %r (expected result %r)' % (mode, script, old, e, new), small)
            continue
        finally:
            _close(source)
        want = [(f, l, _conv(t, mode, enc)) for (f, l, t) in edscript.to_patches(parsed)]
        if o != n:                      # list against list: every element is one line
            if empty:
                key = 'empty-script-changes-lines'
            else:
                key = _name_mechanism(ctx, ds, s, mode, eff, want)
            ctx.violation(key, '%s: old=%r script=%r expected=%r got=%r' % (mode, old, script, n, o), small)
            continue                    # already reported; the collected forms would only repeat it
        elif ret is not None:
            pass    # return value is not part of the statement
        for use in uses:
            check_collected(ctx, ds, o0, s, n, want, src, mode, use, small, empty, multi)


def _snap(p):
    """A yielded patch by value: (first, last, list(text)), or None when it is not such a triple."""
    try:
        first, last, text = p
        return (first, last, list(text))
    except Exception:       # noqa - reported as not-a-triple
        return None


def _model_apply(lines, triples):
    """The documented meaning of a patch stream (replace lines[first:last] by the replacement lines, in order), written
    without slice assignment; None when a triple is outside 0 <= first <= last <= len."""
    lines = list(lines)
    for t in triples:
        if t is None:
            return None
        first, last, text = t
        if not (isinstance(first, int) and isinstance(last, int) and 0 <= first <= last <= len(lines)):
            return None
        lines = lines[:first] + list(text) + lines[last:]
    return lines


def check_collected(ctx, ds, old_t, s, new_t, want, src, mode, use, small, empty, multi=False):
    """M.collect: the patches are COLLECTED first (list / tuple / two-pass), then applied - the result must be the
    target.  M.triples: the collected triples are compared with the reference interpreter's, by value after the whole
    script has been consumed and by identity of the text objects; that comparison only NAMES the mechanism (or counts
    an equivalent formulation), the verdict is the application result."""
    small = dict(small)
    small['use'] = use
    ctx.mon('M.collect')
    ctx.count('collect:use:%s' % use)
    ctx.count('collect:src:%s' % src)
    ctx.count('collect:mode:%s' % mode)
    if empty:
        ctx.count('empty:use:%s' % use)
    if multi:
        ctx.count('collect:different-texts>=2')
        ctx.count('collect:different-texts>=2/use:%s' % use)
    source, eff = _source(ctx, s, src, mode)
    at_yield = None
    try:
        if use == 'list':
            patches = list(ds.patches_from_ed_script(source))
        elif use == 'tuple':
            patches = tuple(ds.patches_from_ed_script(source))
        else:
            if eff == 'list':
                # validate-first idiom: the script (a list) is parsed once for its errors only, then parsed again
                for _ in ds.patches_from_ed_script(source):
                    pass
                ctx.count('collect:script-list-parsed-twice')
                if source != list(s):
                    ctx.violation('collected-patches/script-list-altered-by-parsing',
                                  '%s: script %r is %r after one pass of patches_from_ed_script over it'
                                  % (mode, s, source), small)
                    return
            patches, at_yield = [], []
            for p in ds.patches_from_ed_script(source):
                patches.append(p)
                at_yield.append(_snap(p))
    except Exception as e:
        ctx.violation(('empty-script-rejected/%s' if empty else 'collected-patches/wellformed-script-rejected/%s')
                      % type(e).__name__,
                      '%s script %r: collecting the patches (%s, source %s) raised %r although the piped form worked'
                      % (mode, s, use, eff, e), small)
        return
    finally:
        _close(source)
    # ---- the triples themselves, after full consumption
    ctx.mon('M.triples')
    final = [_snap(p) for p in patches]
    mech = None
    if None in final:
        mech = 'not-a-triple'
    elif len(set(id(p) for p in patches)) < len(patches):
        mech = 'patch-object-yielded-more-than-once'
    elif len(final) != len(want):
        mech = 'patch-count-differs'
    else:
        seen, shared = {}, set()
        for k, p in enumerate(patches):
            if want[k][2]:                              # d commands may share whatever empty object they like
                if id(p[2]) in seen:
                    shared.add(k)
                    shared.add(seen[id(p[2])])
                else:
                    seen[id(p[2])] = k
        if shared:
            ctx.count('collect:text-object-shared')
        for k, (g, w) in enumerate(zip(final, want)):
            if g[2] != w[2]:
                if k in shared:
                    mech = 'text-object-shared-between-patches'
                elif at_yield is not None and at_yield[k] is not None and at_yield[k][2] == w[2]:
                    mech = 'text-changed-after-yield'
                elif g[2] and w[2] and type(w[2][0])().join(g[2]) == type(w[2][0])().join(w[2]):
                    mech = 'text-block-lines-resplit'
                else:
                    mech = 'text-differs-from-script'
                    if at_yield is None:                # naming only: was it right at the moment it was yielded?
                        try:
                            src2 = _source(ctx, s, eff, mode)[0]
                            try:
                                snaps = [_snap(p) for p in ds.patches_from_ed_script(src2)]
                            finally:
                                _close(src2)
                            if len(snaps) == len(want) and snaps[k] is not None and snaps[k][2] == w[2]:
                                mech = 'text-changed-after-yield'
                        except Exception:       # noqa - naming only
                            pass
                break
        if mech is None:
            for g, w in zip(final, want):
                if (g[0], g[1]) != (w[0], w[1]) or isinstance(g[0], bool) or isinstance(g[1], bool):
                    mech = 'index-differs'
                    break
        if mech is None and at_yield is not None and at_yield != final:
            mech = 'patch-changed-after-yield'
    if mech is None:
        ctx.count('collect:triples-equal-reference')
    # ---- collect, then apply
    if use == 'two-pass' and None not in final:
        size = len(old_t)
        for p in patches:                               # a reading pass over the collected patches (inspect only)
            first, last, text = p
            size += len(text) - (last - first)
    o1 = list(old_t)
    try:
        ds.patch_lines(o1, patches)
    except Exception as e:
        ctx.violation('empty-script-rejected/%s' % type(e).__name__ if empty
                      else 'collected-patches/%s' % (mech or 'apply-raised/%s' % type(e).__name__),
                      '%s script %r: patch_lines(lines, %s of patches) raised %r; patches=%r reference=%r'
                      % (mode, s, use, e, patches, want), small)
        return
    if o1 != new_t:
        if empty:
            key = 'empty-script-changes-lines'
        else:
            key = 'collected-patches/%s' % (mech or 'applied-differently-from-the-piped-iterator')
        ctx.violation(key, '%s: old=%r script=%r collected as %s (source %s): patches=%r reference=%r expected=%r got=%r'
                      % (mode, old_t, s, use, eff, patches, want, new_t, o1), small)
        return
    if mech is not None:
        # not the reference triples, but they do what the script says: an equivalent formulation is not accused
        if _model_apply(old_t, final) == new_t:
            ctx.count('collect:triples-differ-but-equivalent/%s' % mech)
        else:
            ctx.count('collect:triples-outside-model/%s' % mech)
    if use == 'two-pass':
        o2 = list(old_t)
        try:
            ds.patch_lines(o2, patches)
        except Exception as e:
            o2 = e
        if o2 != new_t:
            after = [_snap(p) for p in patches]
            ctx.violation('collected-patches/%s' % ('altered-by-patch_lines' if after != final
                                                     else 'second-application-differs'),
                          '%s: old=%r script=%r: the collected patches %r gave the target on a first copy of old and %r '
                          'on a second copy (patches now %r)' % (mode, old_t, s, final, o2, after), small)


def check_reject(ctx, case):
    """M.reject on one malformed script."""
    from debian import debian_support as ds
    old, script, cls = case['old'], case['script'], case.get('class', 'unclassified')
    src = case.get('src', 'list')
    # self-check: the reference interpreter must reject it too
    try:
        edscript.parse_ed_script(script)
        refused = False
    except edscript.EdScriptError:
        refused = True
    if not refused or not edscript.in_domain(old):
        ctx.extra['self_check']['reference_refused'] += 1
        ctx.inconclusive.append('reference interpreter accepts a script generated as malformed (%s): %r' % (cls, script))
        return
    ctx.extra['self_check']['reference_vouched'] += 1
    ctx.count('reject:truncation' if cls == 'truncation' else 'reject:command')
    ctx.count('reject-class:%s' % (cls if cls != 'truncation' else 'truncation/%s' % case.get('cut', '?')))
    ctx.count('src:%s' % src)
    enc = _case_enc(case, old, script)
    brk = _brk_profile(script)[0]
    if brk:
        ctx.count('brk:reject')
        ctx.count('brk:reject/%s' % ('truncation' if cls == 'truncation' else 'command'))
        ctx.count('brk:reject/enc:%s' % enc)
        if cls == 'truncation' and _brk_profile(script[-1:])[2]:
            ctx.count('brk:reject/cut-after-tail-dot-line')
    if cls == 'truncation' and case.get('role'):
        # measured: number of text blocks that are complete before the cut
        done = _complete_text_blocks(script)
        if done >= 1 and case.get('nblocks', 0) - done >= 2:
            ctx.count('reject:trunc-multi:middle')
        elif done >= 2:
            ctx.count('reject:trunc-multi:last')
        elif done == 0 and case.get('nblocks', 0) >= 3:
            ctx.count('reject:trunc-multi:first')
    ctx.nontrivial(case={'old': old, 'script': script, 'class': cls})
    zero = cls in ZERO_APPEND_CLASSES
    if zero:
        ctx.count('zero:malformed')
        ctx.count('zero:malformed/src:%s' % src)
    for mode in _modes(case):
        o, s = _conv(old, mode, enc), _conv(script, mode, enc)
        small = dict(case)
        small['mode'] = mode
        small['enc'] = enc
        ctx.mon('M.reject')
        if zero:
            ctx.mon('M.reject.zero')
        if brk:
            ctx.mon('M.reject.brk')
        source = _source(ctx, s, src, mode)[0]
        try:
            ds.patch_lines(o, ds.patches_from_ed_script(source))
        except ValueError:
            continue
        except Exception as e:
            ctx.violation('malformed-script-wrong-exception/%s' % type(e).__name__,
                          '%s script %r (%s) raised %r instead of ValueError' % (mode, script, cls, e), small)
            continue
        finally:
            _close(source)
        if cls == 'truncation':
            key = 'unterminated-text-block-accepted'
        else:
            key = 'malformed-command-accepted/%s' % cls
        ctx.violation(key, '%s script %r (%s%s) was applied without error: %r -> %r'
                      % (mode, script, cls, (' at line %d' % case['at']) if 'at' in case else '',
                         _conv(old, mode, enc), o), small)


def _outcome(ctx, ds, old_t, s, src, mode):
    """('ValueError' | 'raised:<type>' | 'applied', resulting lines or None) of applying script s to a copy of old_t."""
    o = list(old_t)
    source = _source(ctx, s, src, mode)[0]
    try:
        ds.patch_lines(o, ds.patches_from_ed_script(source))
    except ValueError:
        return 'ValueError', None
    except Exception as e:
        return 'raised:%s' % type(e).__name__, None
    finally:
        _close(source)
    return 'applied', o


def check_zero_second(ctx, case):
    """M.reject.zero on 'N,0c' / 'N,00d': a SECOND address that is zero is still a second address.  The command is
    well-formed syntax with a bad range; the statement does not say what a bad range must do, so the demand is relative
    to the tree itself: where the same command with a NON-ZERO bad second address ('N,Kc', 0 < K < N) raises
    ValueError, the zero-valued one must raise ValueError too.  Nothing else is demanded (see ASSUMPTIONS)."""
    from debian import debian_support as ds
    old, script, analog, single = case['old'], case['script'], case.get('analog'), case.get('single')
    src = case.get('src', 'list')
    # self-check: the reference interpreter reads every variant as syntax it knows, and refuses the range of the zero
    # form and of the analog (a zero second address is a second address)
    try:
        for sc in (script, analog, single):
            if sc is not None:
                edscript.parse_ed_script(sc)
        ok = edscript.in_domain(old)
    except edscript.EdScriptError:
        ok = False
    for sc in (script, analog):
        if ok and sc is not None:
            try:
                edscript.apply_ed_script(old, sc)
                ok = False
            except edscript.EdScriptError:
                pass
    if not ok:
        ctx.extra['self_check']['reference_refused'] += 1
        ctx.inconclusive.append('zero-second case outside what the reference interpreter vouches for: %r / %r / %r'
                                % (script, analog, single))
        return
    ctx.extra['self_check']['reference_vouched'] += 1
    cmd = script[case.get('at', 0)]
    letter = cmd.rstrip('\n')[-1]
    ctx.count('zero:second-on-%s' % letter)
    ctx.count('zero:second-on-cd')
    ctx.count('zero:second-on-cd/src:%s' % src)
    ctx.count('zero:second-on-cd/spelled:%s' % cmd[:-2].split(',')[1])
    ctx.count('zero:second-on-cd/%s' % ('with-analog' if analog is not None else 'no-analog'))
    ctx.nontrivial(case={'old': old, 'script': script, 'class': 'zero-second'})
    for mode in _modes(case):
        o = _conv(old, mode)
        small = dict(case)
        small['mode'] = mode
        ctx.mon('M.reject.zero')
        z = _outcome(ctx, ds, o, _conv(script, mode), src, mode)
        ctx.count('zero:second-on-cd/zero-form:%s' % z[0])
        a = None
        if analog is not None:
            a = _outcome(ctx, ds, o, _conv(analog, mode), src, mode)
            ctx.count('zero:second-on-cd/analog:%s' % a[0])
            if a[0] == 'ValueError' and z[0] != 'ValueError':
                ctx.violation('malformed-command-accepted/zero-second-address',
                              '%s: command %r (script %r on %r) gave %s although the same command with the non-zero bad '
                              'second address (%r) raises ValueError: a second address of zero was not treated as present'
                              % (mode, cmd, script, old, z[0] if z[1] is None else 'the result %r' % (z[1],),
                                 analog[case.get('at', 0)]), small)
                continue
        if single is not None and z[0] == 'applied' and int(cmd.split(',')[0]) > 0:
            # informational only (evidence, no verdict): did the zero vanish, i.e. was 'N,0c' applied as 'Nc'?
            s1 = _outcome(ctx, ds, o, _conv(single, mode), src, mode)
            if s1[0] == 'applied' and s1[1] == z[1] and (a is None or a[1] != z[1]):
                ctx.count('zero:second-on-cd/applied-like-the-single-address-form')


def _complete_text_blocks(script):
    """Number of a/c blocks the reference interpreter reads completely before it refuses a cut script."""
    for k in range(len(script), -1, -1):
        try:
            return len([p for p in edscript.parse_ed_script(script[:k]) if p[0] != 'd'])
        except edscript.EdScriptError:
            continue
    return 0


_LINE_RE = re.compile(b'[^\n]*\n|[^\n]+$')


def run_diff_e(ctx, old, new):
    d = getattr(ctx, '_c18_fdir', None)
    if d is None:
        d = ctx._c18_fdir = _file_dir(ctx)
    pa, pb = os.path.join(d, 'a'), os.path.join(d, 'b')
    with open(pa, 'wb') as f:
        f.write(''.join(old).encode('utf-8'))
    with open(pb, 'wb') as f:
        f.write(''.join(new).encode('utf-8'))
    env = dict(os.environ)
    env['LC_ALL'] = 'C'
    p = subprocess.run(['diff', '-e', pa, pb], stdout=subprocess.PIPE, stderr=subprocess.PIPE, env=env)
    if p.returncode not in (0, 1):
        return None
    return [l.decode('utf-8') for l in _LINE_RE.findall(p.stdout)]


def run_case(ctx, case):
    kind = case['kind']
    if kind == 'pair':
        script = edscript.make_ed_script_indexed(case['old'], case['new'], split_replace=bool(case.get('split')))[0]
        check_apply(ctx, case['old'], script, case['new'], case,
                    'difflib-split' if case.get('split') else 'difflib')
    elif kind == 'script':
        check_apply(ctx, case['old'], case['script'], case['new'], case, case.get('via', 'explicit'))
    elif kind == 'diffe':
        script = run_diff_e(ctx, case['old'], case['new'])
        if script is None:
            ctx.count('diffe:diff-failed')
            return
        check_apply(ctx, case['old'], script, case['new'], case, 'diffe')
    elif kind == 'malformed':
        check_reject(ctx, case)
    elif kind == 'zero-second':
        check_zero_second(ctx, case)
    else:
        raise ValueError('unknown case kind %r' % (kind,))


LEVEL_TEXT = ('Runtime monitoring: patch_lines(lines, patches_from_ed_script(S)) of the live tree is executed on 7.5e4 (quick) '
              '/ 2.5e6 (thorough) (old, new) pairs, as str and as bytes (UTF-8; Latin-1 for part of the line-boundary class), '
              'with S derived independently (difflib opcodes -> a/c/d in descending order; `diff -e` output) and handed over '
              'as list, iterator, in-memory file and on-disk file object; the mutated list is compared with new element by '
              'element.  9e4 / 2.8e6 scripts with exactly one corrupted command or a text block cut before its "." must raise '
              'ValueError (incl. scripts with >= 3 text blocks cut in the first / a middle / the last block).  1e4 / 2.5e5 of '
              'the applied and 2e4 / 4.8e5 of the rejected scripts carry a non-LF line-boundary character (CR VT FF FS GS RS '
              'NEL LS PS) in the middle of a line.  Two complete sub-spaces are enumerated (old <= 4 lines x new <= 5 lines; '
              '9 boundary characters x 14 templates x 19 placements).  2.6e4 / 7e5 applications use scripts in spellings GNU '
              'diff does not emit (removal as c with an empty text block, no-op append, change by the identical lines, '
              'unmerged adjacent hunks, leading zeros, N,N, last line without newline; a complete single-command matrix), and '
              '1.3e4 / 3.5e5 rejections concern address fields that are present and zero (N,0a absolutely; N,0c / N,0d '
              'relative to N,Kc on the same tree).  Held-on-observed, not a proof.')
LEVEL_NOTE = ('Trusted: CPython, difflib, vp.models.edscript (deriver + strict reference interpreter; every script is '
              'self-checked against it, and GNU diff -e is a second source). Lines end in exactly one "\\n" (everything before it '
              'is content, whatever str.splitlines would make of it) and are never a lone ".". File sources never translate '
              'or re-split (read back before use). Semantically odd but well-formed commands (0d, out-of-range addresses) are '
              'outside the oracle.')
TECHNIQUE = ('runtime monitoring: boundary oracle M on patch_lines(patches_from_ed_script(S)) - result must equal the target '
             'lines, element by element, for independently derived scripts (M.apply, str/bytes x list/iterator/file/on-disk '
             'file, incl. content with embedded non-LF line-boundary characters), and ValueError must be raised for scripts '
             'with one corrupted command or an unterminated text block, single- and multi-block (M.reject); the same two '
             'checks over scripts in spellings other than GNU diff\'s (M.apply.alt) and over address fields that are present '
             'and zero (M.reject.zero)')
