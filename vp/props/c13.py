"""C13 - PkgRelation.str and PkgRelation.parse_relations are inverse.

Deciding monitor M (boundary oracle): for a generated relation structure R
(the oracle is R itself), the live ``PkgRelation.str`` formats it, the live
``PkgRelation.parse_relations`` parses the text under a recording warnings
filter, and the monitor requires

* no warning was emitted by the parse,
* the parsed structure equals R (``==``; then: arch / restriction terms are the
  documented namedtuples and ``enabled`` is a bool),
* formatting the parsed structure again gives the identical string.

Three flavours observe the same boundary:

``rt``      one structure, format -> parse -> format.
``hist``    history: parse a structure, mutate the *returned* nested lists and
            dicts in place (append an arch, a restriction term, a restriction
            group, an alternative, an AND-group; overwrite scalar members), do the
            same to the structure that was handed to ``str``, then format+parse
            FRESH structures made of the same atoms (the same structure and a
            regrouped one) and require exactly the fresh structures back.  A
            parse whose result depends on what a caller did to an earlier result
            (memoised atoms, hoisted/shared lists) is caught here.
``deb822``  the text is observed through ``deb822.Packages`` /
            ``deb822.Sources`` ``.relations`` (paragraph built from text, from a
            mapping, and through ``iter_paragraphs``), several relationship
            fields per paragraph.

``view``    ``.relations`` is a dict-like object; subscripting it is only one of
            the ways a caller reads it.  The flavour reads it through every
            other read path a dict offers - ``.items()``, ``.values()``,
            ``.keys()``, iteration, ``.get(name)``, ``.get(name, default)``,
            ``dict(rel)``, ``{**rel}``, ``.copy()``, ``==`` / ``!=`` with the
            relations of another paragraph object, ``in``, ``len`` - each on a
            FRESH paragraph object BEFORE any subscript was made on it (phase
            ``first``), then subscripts every field (also the documented
            relationship fields the paragraph does not carry: ``[]``), then
            repeats the read path (phase ``later``).  Three plan classes per
            case, every plan on paragraph objects of its own: ``single`` (one
            read path, rotated so that every path is first equally often),
            ``chain`` (several read paths in a row before the first subscript)
            and ``alt`` (the ``.relations`` of two paragraph objects are read
            ALTERNATELY, random read paths and subscripts interleaved).  The
            oracle is the same as everywhere: the structure that was formatted
            into the field, ``[]`` for a documented absent field.

``size``    SIZE and REPETITION.  Real relationship fields are long (hundreds of
            comma clauses, kilobytes of text), and nothing in the statement bounds
            them.  Every run contains, as named classes: fields of 20 / 40 / 70 /
            150 / 400 comma clauses; alternatives groups of 10 / 17 / 30 members;
            architecture lists of 10 / 15 / 20 names; restriction formulas of
            3x2 / 4x3 / 5x4 / 6x5 (groups x terms); all of these together; fields
            padded so that the text ``str`` returns is just longer than 80 / 200 /
            998 / 1000 / 4096 / 10000 characters (the length classes are COUNTED
            on the string the live ``str`` returned, not on what the generator
            aimed at); a single atom longer than 80 / 200 characters (a value
            without any comma); and fields with exactly repeated clauses
            (``a (>= 1), b, a (>= 1)``; the same alternatives group twice,
            adjacent and apart; the same alternative twice inside one group; one
            clause n times; a whole field twice; repeats scattered through a long
            field) - the structure is a list of lists, so both occurrences are
            part of it.  Every size case is judged at the bare boundary (``M``,
            ``M.idem``, ``M.order``; counted as ``M.size``) AND through
            ``Packages`` / ``Sources`` ``.relations[field]`` (``M.size.deb822``;
            paragraph built from text, lines, a mapping, ``iter_paragraphs``; the
            long field first, between or after short ones).  The oracle is the
            unchanged one: the structure itself.  A witness is reduced to a single
            atom if one fails alone, else to a short failing run of clauses.

The history flavour is generated last, so its in-place edits cannot influence
the other flavours.  Witnesses of the ``rt`` flavour carry ``repeat: 2`` (the
same structure is round-tripped twice on replay), so that a defect which needs
an earlier call in the same process still reproduces from a fresh interpreter.

Key order of the per-relation dicts.  Dict equality does not depend on the order
in which the keys were inserted, so neither may formatting: about half of the
atoms of every flavour are handed to ``str`` as dicts whose five keys were
inserted in another order than the one ``parse_relations`` uses (explicit
insertion in a shuffled order, a comprehension over a shuffled key list,
``dict.fromkeys(order)`` + ``update``, ``dict(sorted(d.items()))``, the same
reversed, ``dict(reversed(list(d.items())))``, ``d[k] = d.pop(k)``, a plain
``dict(d)`` copy).  The oracle stays the canonical-order structure (``==``), and
monitor ``M.order`` additionally requires ``str`` of the permuted structure to be
the very string ``str`` gives for an ``==`` structure in canonical order.  A
failure that disappears when the same atoms are given in canonical key order is
keyed ``format-depends-on-key-order/...``.

Architecture lists are uniformly plain, uniformly negated, or (about a quarter)
MIXED: negated-then-plain, plain-then-negated, strictly alternating, irregular.
The class of every list is measured on the executed case (``archlist:*``).

The workload contains a complete shape matrix every run: each of the five
relational operators (and "no version") x every subset of {arch qualifier,
arch list, restriction formula} x five positions (alone / first / middle / last
alternative / inside a multi-group field); a run in which one of the 48 shapes
was not observed - or was not observed with a permuted key order - is
inconclusive.
"""
import copy
import itertools
import re
import reprlib
import warnings

from ..models import dpkgver
from .c03 import gen_version

PROP = 'C13'
LEVEL = 'exploration'
RULE = ('Relation structures of 1..4 AND-groups x 1..3 alternatives (thorough: up to 6 x 4); every atom has a policy-valid '
        'lower-case package name (>= 2 characters, hostile endings such as "+", "-", "."), optionally an architecture '
        'qualifier, a version constraint (one of << <= = >= >> with a dpkg-valid version from the C03 generator), an '
        'architecture list (1..3 names all plain or all negated, or - a quarter of the lists - 2..4 names MIXED: '
        'negated-then-plain, plain-then-negated, strictly alternating, irregular; names with "-") and a restriction formula '
        '(1..3 groups of 1..3 lower-case terms, freely negated).  About half of the per-relation dicts handed to '
        'PkgRelation.str have their five keys inserted in a non-canonical order (shuffled insertion, comprehension, '
        'dict.fromkeys+update, dict(sorted(items)), reverse-sorted, dict(reversed(items)), d[k]=d.pop(k), plain copy); the '
        'oracle is the ==-equal canonical structure and str of both must be the same string.  A complete matrix of (operator or none) x subsets of the three other '
        'optional parts x 5 positions is part of every run.  A structure is non-trivial when at least one atom carries '
        'two or more of the four optional parts.  View flavour (2000 / 36000 cases): 2..3 Packages or Sources paragraphs '
        'with 1..4 relationship fields each (built from text, lines, a mapping, iter_paragraphs; in half of the cases all '
        'paragraphs carry the same Package name, as the versions of one package do in a real index); the dict-like .relations '
        'is read through items(), values()+keys(), keys(), iteration, get(name), get(name, default), dict(rel), {**rel}, '
        'copy(), == / != (with the relations of a second, never subscripted object of the same paragraph; of an object of a '
        'paragraph with other values; with the expected plain dict), "in" and len.  Three plans per case, each on paragraph '
        'objects of its own: "single" - one read path (rotated, so that every path is the first access equally often) on '
        'every paragraph BEFORE any subscript, then rel[Name] / rel[name] of every present field and rel[name] of every '
        'documented absent field, then the read path again; "chain" - 2..4 read paths in a row before the first subscript '
        'and again after it; "alt" - 5..10 steps that read the relations of two paragraph objects ALTERNATELY through '
        'random read paths and subscripts.  In half of the plans the object returned by the first .relations access of a '
        'paragraph is kept and re-read, in the other half .relations is fetched at every step.  Every value read for a '
        'present field must be the structure that was formatted into it (values, types, second formatting), every value '
        'read for a documented relationship field the paragraph lacks must be [].  Size flavour (20 / 600 repetitions of 43 named '
        'classes): fields of 20, 40, 70, 150, 400 comma clauses (thorough also a random count up to 600; four fifths of the '
        'clauses one atom, the rest 2..3 alternatives; atoms mostly name or name+version as in real fields, a third with '
        'random optional parts); one alternatives group of 10, 17, 30 members inside a short field; one atom with an '
        'architecture list of 10, 15, 20 names (plain, negated or mixed); one atom with a restriction formula of 3x2, 4x3, '
        '5x4, 6x5 groups x terms; all of that in one field of 40..70 clauses; fields padded (by the length of the last '
        'package name) to a PkgRelation.str length 1..40 characters above 80, 200, 998, 1000, 4096, 10000; a single atom '
        '(no comma in the value) longer than 80 and longer than 200 characters; and exactly repeated clauses: X, X, Y / '
        'X, Y, X / the same alternatives group twice (adjacent; apart) / a | b | a inside one group / one clause 2..6 times '
        '/ a whole field twice / 5..10 repeats scattered through 40..70 clauses / a repeated atom with all optional parts '
        '(the copy may reach str with another dict key order).  Every size case is round-tripped at the bare boundary and '
        'read through Packages / Sources .relations[field] (the long field first, between or after short fields; '
        'paragraph from text, lines, a mapping, iter_paragraphs).  The clause count, widest group, longest architecture '
        'list, largest formula, repeated clauses and the length of the formatted value are measured on the executed case.')
ASSUMPTIONS = [
    'domain restricted to what the statement quantifies over: lower-case policy-valid package names, the five operators, '
    'version strings dpkg accepts (vp.models.dpkgver.classify == accept, upstream starting with a digit), architecture '
    'names over [a-z0-9-], lower-case build-profile names over [a-z0-9.+-] (the parser lower-cases the formula)',
    'every architecture name carries its own negation flag (ArchRestriction.enabled): the statement quantifies over '
    '"negated and plain architecture names", parse_relations decides "!" per name and the library declares Policy '
    'conformance checks out of scope, so lists that mix negated and plain names are in the domain (Policy 7.1 would '
    'reject them for dpkg; nothing here is claimed about dpkg accepting the text); lists and restriction groups are non-empty',
    'the structure handed to str carries all five keys, as parse_relations returns them, each atom being a plain dict; the '
    'ORDER of the keys is not part of the structure (dict equality ignores it), so a dict with the same five items in any '
    'insertion order is the same input: str must give the same string for it and parse must give back an == structure; '
    'nothing is demanded about the key order of the dicts parse_relations returns',
    'only the text produced by PkgRelation.str is parsed (no alternative spacing, no folded field values)',
    'size flavour: the statement bounds neither the number of clauses, alternatives, architecture names, restriction groups '
    'and terms nor the length of the formatted value, and a structure is a list of lists, so a clause (or an alternative '
    'inside a group) that occurs twice is two elements of it; sizes stay within what real archives carry by less than one '
    'order of magnitude (<= 600 clauses, <= 30 alternatives, <= 20 architecture names, <= 6 groups x 5 terms, values up to '
    'about 20 kB; names up to about 60 characters where a value is padded to an exact length) - nothing is claimed about '
    'larger inputs (e.g. recursion depth at thousands of clauses)',
    'size flavour: nothing is demanded about the SHAPE of the text str returns (no model formatter is used as an oracle; it '
    'only sizes the generated cases): a value that str chose to fold would be accepted as long as parse_relations gives the '
    'structure back without a warning, str of that gives the same text, and - paragraph route - the text written after '
    '"Field: " by the harness reads back through .relations as the structure and formats back to the field value; the '
    'length classes are counted on the text the live str returned',
    'view flavour: .relations is documented as a dictionary whose keys depend on the package kind and whose values are the '
    'parsed relationships; the keys demanded are the lower-case relationship field names of the class (Packages: depends, '
    'pre-depends, recommends, suggests, breaks, conflicts, provides, replaces, enhances, built-using; Sources: the six '
    'build-* fields and binary - the sets the library\'s own TestPkgRelations pins), a field the paragraph lacks reads as '
    '[]; further keys are tolerated and their values not judged (the comparison with the expected plain dict is made only '
    'when the key set is exactly the documented one); nothing is demanded about key ORDER, about the identity of the '
    'objects returned by two reads, or about .relations returning the same object twice',
    'view flavour: only the subscript is documented to accept the field name in any case (the dict lower-cases on lookup), '
    'so get() and "in" are asked with the lower-case key only; only reading operations are applied to .relations (no '
    'assignment, deletion, setdefault or in-place edit of a returned structure), and the paragraph itself is not modified '
    'between reads; the Binary field of Sources is never generated (its value is a name list, outside the statement) - it '
    'is only observed as an absent field',
    'view flavour: == between the relations of two paragraph objects is judged as dict equality: objects of the same '
    'paragraph text must compare equal, and objects whose expected mappings differ under == must compare unequal (if they '
    'compared equal, one of the two would hold a structure other than the one formatted into its paragraph)',
]
ANCHORS = ['debian.deb822:PkgRelation.parse_relations',
           'debian.deb822:PkgRelation.str',
           'debian.deb822:_PkgRelationMixin.relations']
MUST_REACH = list(ANCHORS)

OPS = ['<<', '<=', '=', '>=', '>>']
KEYS = ['name', 'archqual', 'version', 'arch', 'restrictions']      # the order parse_relations uses
KEY_ROUTES = ['insert', 'comp', 'fromkeys', 'sorted', 'rsorted', 'reversed', 'move', 'copy']
ARCHLIST_CLASSES = ['plain', 'negated', 'mixed:neg-then-plain', 'mixed:plain-then-neg', 'mixed:alternating',
                    'mixed:irregular']
P_MIXED = 0.25          # share of architecture lists that mix negated and plain names
P_KEYORDER = 0.55       # share of atoms built through one of KEY_ROUTES
POSITIONS = ['alone', 'first', 'middle', 'last', 'multi']
SHAPES = ['%s|%s%s%s' % (op or 'none', 'q' if q else '-', 'a' if a else '-', 'r' if r else '-')
          for op in [None] + OPS for q in (0, 1) for a in (0, 1) for r in (0, 1)]

# read paths of the dict-like `.relations` other than the subscript
VIEW_PATHS = ['items', 'values', 'keys', 'iter', 'get', 'get-default', 'dict', 'unpack', 'copy', 'eq', 'in', 'len']
VIEW_STEPS = VIEW_PATHS + ['sub']
VIEW_PLANS = ['single', 'chain', 'alt']

# total counts per tier (split over the shards)
N_MATRIX_REPS = {'quick': 25, 'thorough': 300}          # x 48 shapes x 5 positions
N_RANDOM = {'quick': 90000, 'thorough': 2000000}
N_HIST = {'quick': 12000, 'thorough': 200000}
N_DEB822 = {'quick': 6000, 'thorough': 80000}
N_VIEW = {'quick': 2000, 'thorough': 36000}              # x 3 plans (single, chain, alt), each on fresh paragraph objects



def _view_floors(cases, first, later, sub_first, sub_later, present, absent, switches):
    """Floors of the view flavour: every read path must have been applied both before and after a subscript."""
    f = {'flavour:view': cases, 'view:Packages': cases // 2, 'view:Sources': cases // 2,
         'view:plan:single': cases, 'view:plan:chain': cases, 'view:plan:alt': cases,
         'view:rel:kept': cases * 14 // 10, 'view:rel:refetched': cases * 14 // 10,
         'view:package-names:same': cases * 45 // 100, 'view:package-names:distinct': cases * 45 // 100,
         'view:path:sub:first': sub_first, 'view:path:sub:later': sub_later,
         'view:present': present, 'view:absent': absent, 'view:alt-switch': switches}
    for init in ('text', 'lines', 'dict', 'iter'):
        f['view:init:%s' % init] = cases * 23 // 100
    for p in VIEW_PATHS:
        f['view:path:%s:first' % p] = first
        f['view:path:%s:later' % p] = later
    return f


VIEW_FLOORS = {'quick': _view_floors(1000, 1050, 850, 5500, 350, 60000, 120000, 6000),
               'thorough': _view_floors(18000, 19000, 15000, 100000, 6300, 1000000, 2100000, 110000)}

# size flavour (defined here, used by the floors; the generators are further down)
SIZE_CLAUSES = [20, 40, 70, 150, 400]
SIZE_ALTS = [10, 17, 30]
SIZE_ARCHS = [10, 15, 20]
SIZE_FORMULAS = [[3, 2], [4, 3], [5, 4], [6, 5]]            # groups x terms
SIZE_LENGTHS = [80, 200, 998, 1000, 4096, 10000]            # the formatted value is LONGER than this
SIZE_ATOM_LENGTHS = [80, 200]                               # a single atom (a value without a comma) longer than this
SIZE_DUPS = ['adjacent', 'apart', 'group-adjacent', 'group-apart', 'alt-dup', 'n-times', 'field-twice', 'scattered',
             'full-atom']
SIZE_CLASSES = (['clauses:%d' % n for n in SIZE_CLAUSES] + ['clauses:random']
                + ['alts:%d' % n for n in SIZE_ALTS] + ['archs:%d' % n for n in SIZE_ARCHS]
                + ['formula:%dx%d' % (g, t) for g, t in SIZE_FORMULAS] + ['all-together']
                + ['len:%d' % n for n in SIZE_LENGTHS] + ['atomlen:%d' % n for n in SIZE_ATOM_LENGTHS]
                + ['dup:%s' % d for d in SIZE_DUPS] + ['dup-long:%s' % d for d in SIZE_DUPS])
N_SIZE_REPS = {'quick': 20, 'thorough': 600}               # x len(SIZE_CLASSES) cases, split over the shards
SIZE_INITS = ['dict', 'text', 'lines', 'iter']


def _size_floors(reps):
    """Floors of the size flavour, about half of what the unchanged tree measures (hundredths per repetition of the class
    list; measured over quick seeds 0-3): a run that never formatted a 400-clause field, a value longer than 10000
    characters, a repeated clause ... is inconclusive."""
    per = {'flavour:size': 2150,
           'size:alts:>=10': 200, 'size:alts:>=17': 130, 'size:alts:>=30': 50,
           'size:archs:>=10': 210, 'size:archs:>=15': 140, 'size:archs:>=20': 60,
           'size:atomlen:>80': 195, 'size:atomlen:>200': 75,
           'size:clauses:>=20': 1000, 'size:clauses:>=40': 850, 'size:clauses:>=70': 390, 'size:clauses:>=150': 175,
           'size:clauses:>=400': 50,
           'size:formula:>=3x2': 970, 'size:formula:>=4x3': 195, 'size:formula:>=5x4': 125, 'size:formula:>=6x5': 55,
           'size:len:>80': 2040, 'size:len:>200': 1585, 'size:len:>998': 950, 'size:len:>1000': 950, 'size:len:>4096': 250,
           'size:len:>10000': 100,
           'size:dup:fields-with-repeated-clause': 1000, 'size:dup:fields-with-repeated-clause:>=40-clauses': 590,
           'size:dup:fields-with-repeated-group': 370, 'size:dup:fields-with-repeated-alternative': 115,
           'size:dup:repeated-clauses': 5000,
           'size:route:Packages': 1000, 'size:route:Sources': 1000}
    for pos in ('only', 'first', 'middle', 'last'):
        per['size:position:%s' % pos] = 490
    for init in SIZE_INITS:
        per['size:init:%s' % init] = 535
        for t, x in zip(SIZE_LENGTHS, (500, 385, 235, 235, 60, 25)):
            per['size:init:%s:len:>%d' % (init, t)] = x
    for cls in SIZE_CLASSES:
        per['size:class:%s' % cls] = 50
    return {k: reps * x // 100 for k, x in per.items()}


FLOORS = {'quick': {'nontrivial': 50000,
                    'monitors': {'M': 54000, 'M.idem': 54000, 'M.hist': 12000, 'M.deb822': 11000, 'M.order': 48000,
                                 'M.view': 185000, 'M.view.eq': 5500,
                                 'M.size': 430, 'M.size.deb822': 430},
                    'counters': {'flavour:rt': 48000, 'flavour:hist': 6000, 'flavour:deb822': 3000,
                                 'deb822:Packages': 1500, 'deb822:Sources': 1500,
                                 'deb822:init:text': 700, 'deb822:init:lines': 700, 'deb822:init:dict': 700,
                                 'deb822:init:iter': 700,
                                 'hist:mut:arch': 3500, 'hist:mut:term': 3500,
                                 # atoms by effective dict key order / by the way the dict was put together
                                 'keyorder:canonical': 160000, 'keyorder:permuted': 158000,
                                 'keyorder:name-not-first': 118000,
                                 'keyorder:via:insert': 35000, 'keyorder:via:move': 35000, 'keyorder:via:comp': 17500,
                                 'keyorder:via:fromkeys': 17500, 'keyorder:via:sorted': 17500,
                                 'keyorder:via:rsorted': 17500, 'keyorder:via:reversed': 17500,
                                 'keyorder:via:copy': 17500,
                                 # architecture lists by class (measured on the executed case)
                                 'archlist:plain': 48000, 'archlist:negated': 48000,
                                 'archlist:mixed:neg-then-plain': 7900, 'archlist:mixed:plain-then-neg': 7900,
                                 'archlist:mixed:alternating': 13900, 'archlist:mixed:irregular': 2800,
                                 # view flavour: read paths of the dict-like .relations other than the subscript
                                 **VIEW_FLOORS['quick'],
                                 # size flavour: clause counts, list widths, value lengths, repeated clauses (measured)
                                 **_size_floors(N_SIZE_REPS['quick'])}},
          'thorough': {'nontrivial': 1100000,
                       'monitors': {'M': 1100000, 'M.idem': 1100000, 'M.hist': 200000, 'M.deb822': 150000,
                                    'M.order': 1050000, 'M.view': 3300000, 'M.view.eq': 105000,
                                    'M.size': 12900, 'M.size.deb822': 12900},
                       'counters': {'flavour:rt': 1000000, 'flavour:hist': 100000, 'flavour:deb822': 40000,
                                    'deb822:Packages': 20000, 'deb822:Sources': 20000,
                                    'deb822:init:text': 9000, 'deb822:init:lines': 9000, 'deb822:init:dict': 9000,
                                    'deb822:init:iter': 9000,
                                    'hist:mut:arch': 60000, 'hist:mut:term': 60000,
                                    'keyorder:canonical': 5100000, 'keyorder:permuted': 4900000,
                                    'keyorder:name-not-first': 3700000,
                                    'keyorder:via:insert': 1100000, 'keyorder:via:move': 1100000,
                                    'keyorder:via:comp': 550000, 'keyorder:via:fromkeys': 550000,
                                    'keyorder:via:sorted': 550000, 'keyorder:via:rsorted': 550000,
                                    'keyorder:via:reversed': 550000, 'keyorder:via:copy': 550000,
                                    'archlist:plain': 1500000, 'archlist:negated': 1500000,
                                    'archlist:mixed:neg-then-plain': 240000, 'archlist:mixed:plain-then-neg': 240000,
                                    'archlist:mixed:alternating': 420000, 'archlist:mixed:irregular': 109000,
                                    **VIEW_FLOORS['thorough'],
                                    **_size_floors(N_SIZE_REPS['thorough'])}}}
SHAPE_FLOOR = {'quick': 1800, 'thorough': 55000}           # per shape, over the whole run
KSHAPE_FLOOR = {'quick': 875, 'thorough': 27000}             # per shape with a permuted key order

LOWER = 'abcdefghijklmnopqrstuvwxyz'
DIGITS = '0123456789'
NAME_FIRST = LOWER + DIGITS
NAME_REST = 'abklxz0179' + '..++---'
NAME_POOL = ['g++', 'libstdc++6', '0ad', '4ti2', 'a2ps', 'lib3ds-1-3', 'python3.11', 'gcc-12-base', 'libsigc++-2.0-0v5',
             'x11-common', 'r-cran-a', 'z80asm', 'a-', 'a.', 'a+', '0-', '9.', 'a--b', 'a..b', 'a++', 'c++-compiler',
             'lib-', 'libc6', 'libc6.1', 'any', 'native', 'all', 'not', 'stage1', 'amd64', 'linux-any', 'x-', '0.0', '1-1',
             'debhelper-compat', 'dh-sequence-python3', 'libfoo.so.1', 'e2fsprogs', 'ia32-libs', 'ld.so.1']
ARCH_POOL = ['amd64', 'i386', 'arm64', 'armhf', 'armel', 'x32', 'riscv64', 's390x', 'ppc64el', 'mips64el', 'any',
             'linux-any', 'any-amd64', 'any-any', 'gnu-any-any', 'hurd-i386', 'hurd-any', 'kfreebsd-amd64', 'kfreebsd-any',
             'any-i386', 'musl-linux-arm64', 'musl-any-any', 'uclibc-linux-armel', 'linux-armhf', 'a', '0', 'a-b', 'x-y-z']
QUAL_POOL = ['any', 'native', 'any', 'native', 'amd64', 'i386', 'arm64', 'hurd-i386', 'kfreebsd-amd64', 'a', 'a-b', 'x32', '0']
PROFILE_POOL = ['stage1', 'stage2', 'nocheck', 'nodoc', 'cross', 'noudeb', 'nobiarch', 'nopython', 'nojava', 'noinsttest',
                'pkg.foo.bar', 'pkg.gcc-12.nolang', 'pkg.g++.x', 'pkg.libsigc++-2.0.nodoc', 'x', 'a1', '0', 'not', 'any',
                'pkg.a.b-c', 'no-doc', 'stage1.5']
VERSION_POOL = ['1', '0', '1.0-1', '2:1.0~rc1-1+b1', '0.9.8zh-1', '1.2.3+dfsg', '1:2:3', '1.0~', '2.36.1-8+deb11u1', '1.0+',
                '1A', '1.0-1-1', '0:0', '00', '1~~', '1.', '1-1.', '1-~1', '10:1', '1.0+really2.0-0ubuntu1~18.04.1',
                '2.0.0~git20230101.abcdef0-1~bpo11+1', '1:1.2.3-4.1', '9999999999', '1+b1', '1-0']

RE_NAME = re.compile(r'[a-z0-9][a-z0-9.+\-]+\Z')
RE_ARCH = re.compile(r'[a-z0-9]([a-z0-9-]*[a-z0-9])?\Z')
RE_PROFILE = re.compile(r'[a-z0-9][a-z0-9.+\-]*\Z')


# ---------------------------------------------------------------------------
# generators (produce JSON-able descriptions: the oracle and the replay case)

def gen_name(r):
    if r.random() < 0.25:
        return r.choice(NAME_POOL)
    n = r.choice([1, 1, 2, 3, 4, 6, 9, 14])
    return r.choice(NAME_FIRST) + ''.join(r.choice(NAME_REST) for _ in range(n))


def gen_archname(r):
    if r.random() < 0.7:
        return r.choice(ARCH_POOL)
    return '-'.join(''.join(r.choice('abmx0468') for _ in range(r.randint(1, 5))) for _ in range(r.randint(1, 3)))


def gen_qual(r):
    if r.random() < 0.75:
        return r.choice(QUAL_POOL)
    return gen_archname(r)


def gen_profile(r):
    if r.random() < 0.7:
        return r.choice(PROFILE_POOL)
    return r.choice(NAME_FIRST) + ''.join(r.choice('abnoxz019..-') for _ in range(r.randint(0, 8)))


def gen_ver(r):
    if r.random() < 0.3:
        return r.choice(VERSION_POOL)
    while True:
        v = gen_version(r)
        if dpkgver.classify(v) == 'accept' and len(v) <= 24:
            return v


def gen_archlist(r, wide):
    """[[enabled, name], ...]: uniformly plain / negated, or (P_MIXED) a list mixing negated and plain names."""
    if r.random() >= P_MIXED:
        neg = r.random() < 0.5
        return [[not neg, gen_archname(r)] for _ in range(r.randint(1, 5 if wide else 3))]
    n = r.randint(2, 6 if wide else 4)
    pat = r.choice(['neg-then-plain', 'plain-then-neg', 'alternating', 'alternating', 'irregular'])
    if pat in ('neg-then-plain', 'plain-then-neg'):
        cut = r.randint(1, n - 1)
        flags = [(i >= cut) == (pat == 'neg-then-plain') for i in range(n)]
    elif pat == 'alternating':
        n = max(n, 3)
        first = r.random() < 0.5
        flags = [first == (i % 2 == 0) for i in range(n)]
    else:
        n = max(n, 4)             # fewer than four names cannot be irregular
        flags = [r.random() < 0.5 for _ in range(n)]
        if len(set(flags)) == 1:
            flags[r.randrange(n)] = not flags[0]
    names = [gen_archname(r) for _ in range(n)]
    if r.random() < 0.2:          # the same name negated and plain in one list
        names[r.randrange(1, n)] = names[0]
    return [[f, nm] for f, nm in zip(flags, names)]


def gen_keyorder(r):
    """How the dict of one atom is put together (None: the literal parse_relations itself builds)."""
    if r.random() >= P_KEYORDER:
        return None
    via = r.choice(['insert', 'insert', 'comp', 'fromkeys', 'sorted', 'rsorted', 'reversed', 'move', 'move', 'copy'])
    if via in ('insert', 'comp', 'fromkeys'):
        perm = list(KEYS)
        r.shuffle(perm)
        return [via, perm]
    if via == 'move':
        return [via, r.choice(KEYS[:-1])]
    return [via, None]


def gen_formula(r, wide):
    hi = 4 if wide else 3
    return [[[r.random() < 0.5, gen_profile(r)] for _ in range(r.randint(1, hi))] for _ in range(r.randint(1, hi))]


def gen_atom(r, shape=None, wide=False):
    """shape = (op_or_None, q, a, rr) forces which optional parts are present."""
    if shape is None:
        op = r.choice(OPS) if r.random() < 0.55 else None
        q, a, rr = r.random() < 0.3, r.random() < 0.4, r.random() < 0.4
    else:
        op, q, a, rr = shape
    return {'n': gen_name(r),
            'q': gen_qual(r) if q else None,
            'v': [op, gen_ver(r)] if op else None,
            'a': gen_archlist(r, wide) if a else None,
            'r': gen_formula(r, wide) if rr else None,
            'k': gen_keyorder(r)}


def gen_rels(r, wide=False):
    return [[gen_atom(r, wide=wide) for _ in range(r.randint(1, 4 if wide else 3))]
            for _ in range(r.randint(1, 6 if wide else 4))]


def place(r, atom, position):
    other = lambda: gen_atom(r)
    if position == 'alone':
        return [[atom]]
    if position == 'first':
        return [[atom, other()]]
    if position == 'middle':
        return [[other(), atom, other()]]
    if position == 'last':
        return [[other(), other(), atom]]
    return [[other()], [other(), atom], [other(), other()]]


def regroup(r, rels):
    """A different structure made of (a non-empty selection of) the same atoms."""
    atoms = [a for g in rels for a in g]
    r.shuffle(atoms)
    atoms = atoms[:r.randint(1, len(atoms))]
    out, i = [], 0
    while i < len(atoms):
        k = r.randint(1, 3)
        out.append(atoms[i:i + k])
        i += k
    return out


PKG_FIELDS = ['Depends', 'Pre-Depends', 'Recommends', 'Suggests', 'Breaks', 'Conflicts', 'Provides', 'Replaces',
              'Enhances', 'Built-Using']
SRC_FIELDS = ['Build-Depends', 'Build-Depends-Indep', 'Build-Depends-Arch', 'Build-Conflicts', 'Build-Conflicts-Indep',
              'Build-Conflicts-Arch']
CLS_FIELDS = {'Packages': PKG_FIELDS, 'Sources': SRC_FIELDS}
# the keys `.relations` is documented to carry (class attribute _relationship_fields, pinned by the library's own
# TestPkgRelations): every one of them is a key whether or not the paragraph has the field; absent -> []
DOC_KEYS = {'Packages': [f.lower() for f in PKG_FIELDS],
            'Sources': [f.lower() for f in SRC_FIELDS] + ['binary']}


# ---------------------------------------------------------------------------
# size flavour: many clauses, wide groups, long lists, long values, repeated clauses

# (SIZE_CLASSES and the other SIZE_* tables are defined next to the floors, above)


def model_text(desc):
    """What the documented format of a structure looks like - used ONLY to size generated cases (never as an oracle)."""
    out = []
    for g in desc:
        alts = []
        for a in g:
            t = a['n']
            if a.get('q') is not None:
                t += ':' + a['q']
            if a.get('v') is not None:
                t += ' (%s %s)' % (a['v'][0], a['v'][1])
            if a.get('a') is not None:
                t += ' [%s]' % ' '.join(('' if e else '!') + n for e, n in a['a'])
            if a.get('r') is not None:
                t += ' ' + ' '.join('<%s>' % ' '.join(('' if e else '!') + p for e, p in grp) for grp in a['r'])
            alts.append(t)
        out.append(' | '.join(alts))
    return ', '.join(out)


def gen_plain_atom(r):
    """What most clauses of a real field look like: a name, often a version constraint, now and then something else."""
    x = r.random()
    if x < 0.30:
        return gen_atom(r)
    op = r.choice(OPS) if r.random() < 0.55 else None
    return gen_atom(r, (op, x > 0.93, False, False))


def gen_clause(r):
    return [gen_plain_atom(r) for _ in range(1 if r.random() < 0.8 else r.randint(2, 3))]


def gen_field(r, n):
    return [gen_clause(r) for _ in range(n)]


def gen_wide_archlist(r, n):
    kind = r.choice(['plain', 'negated', 'mixed'])
    if kind == 'mixed':
        flags = [r.random() < 0.5 for _ in range(n)]
        flags[0], flags[-1] = True, False
    else:
        flags = [kind == 'plain'] * n
    return [[f, gen_archname(r)] for f in flags]


def gen_wide_formula(r, groups, terms):
    return [[[r.random() < 0.5, gen_profile(r)] for _ in range(terms)] for _ in range(groups)]


def embed(r, atom_or_group, lo=0, hi=3):
    """A short field with the given atom (or alternatives group) at a random clause position."""
    grp = atom_or_group if isinstance(atom_or_group, list) else [atom_or_group]
    before, after = r.randint(lo, hi), r.randint(lo, hi)
    return gen_field(r, before) + [grp] + gen_field(r, after)


def pad_to(r, rels, target):
    """Append clauses, the last one a bare name of the right length, so that model_text(rels) has exactly `target` characters."""
    rels = list(rels)
    while True:
        room = target - len(model_text(rels)) - (2 if rels else 0)
        if room < 2:                   # overshot: drop clauses from the end
            rels.pop()
            continue
        if room <= 60:
            name = r.choice(NAME_FIRST) + ''.join(r.choice(NAME_REST) for _ in range(room - 2)) + r.choice(LOWER)
            rels.append([{'n': name, 'q': None, 'v': None, 'a': None, 'r': None, 'k': gen_keyorder(r)}])
            return rels
        c = gen_clause(r)
        if len(model_text([c])) + 2 + 2 + 2 <= room:
            rels.append(c)
        else:
            rels.append([gen_atom(r, (None, False, False, False))])


def recopy(r, clause):
    """An == copy of a clause description; the dict of the copy may reach str with another key order."""
    c = copy.deepcopy(clause)
    for a in c:
        if r.random() < 0.5:
            a['k'] = gen_keyorder(r)
    return c


def gen_dups(r, how, long_):
    base = gen_field(r, r.randint(40, 70) if long_ else r.randint(0, 3))
    x = gen_clause(r) if r.random() < 0.5 else [gen_atom(r, (r.choice(OPS), False, False, False))]
    y = gen_clause(r)
    grp = [gen_plain_atom(r) for _ in range(r.randint(2, 3))]
    at = lambda: r.randint(0, len(base))

    def put(field, pos, clause):
        return field[:pos] + [clause] + field[pos:]

    if how == 'adjacent':
        i = at()
        return base[:i] + [x, recopy(r, x), y] + base[i:]
    if how == 'apart':
        i = at()
        return base[:i] + [x, y, recopy(r, x)] + base[i:]
    if how == 'group-adjacent':
        i = at()
        return base[:i] + [grp, recopy(r, grp)] + base[i:]
    if how == 'group-apart':
        out = put(base, at(), grp)
        j = r.randint(0, len(out))
        out = put(out, j, recopy(r, grp))
        if long_ or len(out) == 2:      # keep them apart: something in between
            k = [i for i, c in enumerate(out) if strip_order([c]) == strip_order([grp])]
            if k[1] == k[0] + 1:
                out = put(out, k[1], y)
        return out
    if how == 'alt-dup':
        a, b = gen_plain_atom(r), gen_plain_atom(r)
        g = r.choice([[a, b, recopy(r, [a])[0]], [a, recopy(r, [a])[0]], [a, recopy(r, [a])[0], b],
                      [b, a, b, recopy(r, [a])[0]]])
        return put(base, at(), g)
    if how == 'n-times':
        i = at()
        return base[:i] + [x] + [recopy(r, x) for _ in range(r.randint(1, 5))] + base[i:]
    if how == 'field-twice':
        f = base if base else [x, y]
        return f + [recopy(r, c) for c in f]
    if how == 'scattered':
        out = base if long_ else base + [x, y, grp]
        for _ in range(r.randint(5, 10) if long_ else r.randint(2, 4)):
            out = put(out, r.randint(0, len(out)), recopy(r, r.choice(out)))
        return out
    if how == 'full-atom':
        full = [gen_atom(r, (r.choice(OPS), r.random() < 0.5, True, True))]
        if r.random() < 0.3:
            full.append(gen_plain_atom(r))
        i = at()
        return put(put(base, i, full), r.randint(0, len(base) + 1), recopy(r, full))
    raise ValueError(how)


def gen_size_rels(r, cls, wide):
    kind, _, arg = cls.partition(':')
    if kind == 'clauses':
        n = r.randint(20, 600 if wide else 400) if arg == 'random' else int(arg)
        return gen_field(r, n)
    if kind == 'alts':
        n = int(arg)
        return embed(r, [gen_plain_atom(r) for _ in range(n)])
    if kind == 'archs':
        a = gen_atom(r, (r.choice([None] + OPS), r.random() < 0.3, True, r.random() < 0.4))
        a['a'] = gen_wide_archlist(r, int(arg))
        return embed(r, a) if r.random() < 0.7 else [[a]]
    if kind == 'formula':
        g, t = (int(x) for x in arg.split('x'))
        a = gen_atom(r, (r.choice([None] + OPS), r.random() < 0.3, r.random() < 0.4, True))
        a['r'] = gen_wide_formula(r, g, t)
        return embed(r, a) if r.random() < 0.7 else [[a]]
    if kind == 'all-together':
        out = gen_field(r, r.randint(40, 70))
        for _ in range(r.randint(1, 3)):
            out.insert(r.randint(0, len(out)), [gen_plain_atom(r) for _ in range(r.randint(10, 30))])
        for _ in range(r.randint(2, 5)):
            a = gen_atom(r, (r.choice([None] + OPS), r.random() < 0.3, True, True))
            a['a'] = gen_wide_archlist(r, r.randint(10, 20))
            a['r'] = gen_wide_formula(r, r.randint(3, 6), r.randint(2, 5))
            g = r.choice(out)
            g[r.randrange(len(g))] = a
        return out
    if kind == 'len':
        return pad_to(r, [], int(arg) + r.randint(1, 40))
    if kind == 'atomlen':
        # one atom, no comma anywhere in the value: a long name is not what makes real atoms long - lists and formulas are
        a = gen_atom(r, (r.choice(OPS), True, True, True))
        a['a'] = gen_wide_archlist(r, r.randint(4, 8))
        a['r'] = gen_wide_formula(r, 2, 2)
        while len(model_text([[a]])) <= int(arg) + 2:
            if r.random() < 0.5 and len(a['a']) < 20:
                a['a'].append([a['a'][-1][0], gen_archname(r)])
            elif len(a['r']) < 6:
                a['r'].append([[r.random() < 0.5, gen_profile(r)] for _ in range(r.randint(2, 5))])
            elif len(a['a']) < 20:
                a['a'].append([a['a'][-1][0], gen_archname(r)])
            else:
                a['r'][r.randrange(len(a['r']))].append([r.random() < 0.5, gen_profile(r)])
        return [[a]]
    if kind in ('dup', 'dup-long'):
        return gen_dups(r, arg, kind == 'dup-long')
    raise ValueError(cls)


def gen_size_case(r, cls, wide, init):
    clsname = 'Packages' if r.random() < 0.5 else 'Sources'
    names = r.sample(CLS_FIELDS[clsname], 3)
    return {'kind': 'size', 'sz': cls, 'rels': gen_size_rels(r, cls, wide),
            'cls': clsname, 'init': init, 'field': names[0],
            # short fields before / after the long one in the paragraph
            'before': [[names[1], gen_rels(r)]] if r.random() < 0.5 else [],
            'after': [[names[2], gen_rels(r)]] if r.random() < 0.5 else []}


def gen_view_plans(r, npar, rot):
    """Three plans, each executed on paragraph objects of its own.  A step is [paragraph index, read path]."""
    every = list(range(npar))
    subs = [[pi, 'sub'] for pi in every]
    p = VIEW_PATHS[rot % len(VIEW_PATHS)]
    single = [[pi, p] for pi in every] + subs + [[pi, p] for pi in every]
    paths = r.sample(VIEW_PATHS, r.randint(2, 4))
    if r.random() < 0.5:
        before = [[pi, q] for pi in every for q in paths]
    else:
        before = [[pi, q] for q in paths for pi in every]
    chain = before + subs + [[pi, q] for pi in every for q in paths]
    a, b = r.sample(every, 2)
    alt = []
    for k in range(r.randint(5, 10)):
        alt.append([a if k % 2 == 0 else b, r.choice(VIEW_PATHS + ['sub', 'sub', 'sub'])])
    return [{'plan': 'single', 'hold': r.random() < 0.5, 'steps': single},
            {'plan': 'chain', 'hold': r.random() < 0.5, 'steps': chain},
            {'plan': 'alt', 'hold': r.random() < 0.5, 'steps': alt}]


def cases(ctx):
    wide = not ctx.quick
    # 1. complete shape matrix
    r = ctx.rng('matrix')
    idx = 0
    for _rep in range(N_MATRIX_REPS[ctx.tier]):
        for op in [None] + OPS:
            for q, a, rr in itertools.product((False, True), repeat=3):
                for pos in POSITIONS:
                    if ctx.mine(idx):
                        yield {'kind': 'rt', 'rels': place(r, gen_atom(r, (op, q, a, rr), wide), pos)}
                    idx += 1
    # 2. random structures
    r = ctx.rng('random')
    for _i in range(ctx.size(N_RANDOM['quick'], N_RANDOM['thorough'])):
        yield {'kind': 'rt', 'rels': gen_rels(r, wide)}
    # 3. through Packages / Sources .relations
    r = ctx.rng('deb822')
    for i in range(ctx.size(N_DEB822['quick'], N_DEB822['thorough'])):
        cls = 'Packages' if i % 2 == 0 else 'Sources'
        paras = []
        for _p in range(r.choice([1, 1, 2, 3])):
            names = r.sample(CLS_FIELDS[cls], r.choice([1, 1, 2, 3, 4]))
            paras.append([[n, gen_rels(r)] for n in names])
        yield {'kind': 'deb822', 'cls': cls, 'init': r.choice(['text', 'lines', 'dict', 'iter']), 'paras': paras}
    # 4. the other read paths of the dict-like .relations, before and after a subscript, two objects alternately
    r = ctx.rng('view')
    for i in range(ctx.size(N_VIEW['quick'], N_VIEW['thorough'])):
        cls = 'Packages' if i % 2 == 0 else 'Sources'
        paras = []
        for _p in range(r.choice([2, 2, 3])):          # at least two: alternation and != need a second paragraph
            names = r.sample(CLS_FIELDS[cls], r.choice([1, 2, 2, 3, 4]))
            paras.append([[n, gen_rels(r)] for n in names])
        # the paragraphs of half of the cases carry one and the same Package name (as the versions / architectures of a
        # package do in a real Packages or Sources file): nothing but the object tells their relations apart
        pkg = ['pkg0'] * len(paras) if r.random() < 0.5 else ['pkg%d' % j for j in range(len(paras))]
        yield {'kind': 'view', 'cls': cls, 'init': r.choice(['text', 'lines', 'dict', 'iter']), 'paras': paras, 'pkg': pkg,
               'plans': gen_view_plans(r, len(paras), i // 2 + ctx.shard)}
    # 5. size flavour: every named size / repetition class, N_SIZE_REPS times
    r = ctx.rng('size')
    idx = 0
    for _rep in range(N_SIZE_REPS[ctx.tier]):
        for ci, cls in enumerate(SIZE_CLASSES):
            if ctx.mine(idx):
                # the paragraph construction rotates per class so that every class meets every construction on every shard
                yield gen_size_case(r, cls, wide, SIZE_INITS[(_rep // ctx.nshards + _rep + ci) % len(SIZE_INITS)])
            idx += 1
    # 6. history flavour - last, so that the in-place edits it makes cannot influence the other flavours
    r = ctx.rng('hist')
    kinds = ['arch', 'term', 'group', 'scalar', 'alt', 'and']
    for _i in range(ctx.size(N_HIST['quick'], N_HIST['thorough'])):
        rels = gen_rels(r)
        if r.random() < 0.5:     # make sure there is something to append to
            rels[0][0] = gen_atom(r, (r.choice([None] + OPS), r.random() < 0.3, True, True))
        muts = [k for k in kinds if r.random() < 0.6]
        if 'arch' not in muts and 'term' not in muts:
            muts.append(r.choice(['arch', 'term']))
        yield {'kind': 'hist', 'rels': rels, 'rels2': regroup(r, rels), 'muts': muts}


# ---------------------------------------------------------------------------
# domain guard, builder, oracle

_REPR = reprlib.Repr()
_REPR.maxlist = _REPR.maxtuple = _REPR.maxdict = 8
_REPR.maxlevel = 7
_REPR.maxstring = 400
_REPR.maxother = 160
rp = _REPR.repr        # bounded repr: a runaway result must not make the monitor itself slow


def atom_in_domain(a):
    try:
        if not (isinstance(a['n'], str) and RE_NAME.match(a['n'])):
            return False
        if a.get('q') is not None and not (isinstance(a['q'], str) and RE_ARCH.match(a['q'])):
            return False
        if a.get('v') is not None:
            op, v = a['v']
            if op not in OPS or not isinstance(v, str) or dpkgver.classify(v) != 'accept' or not v.isascii():
                return False
            rest = v.split(':', 1)[1] if ':' in v else v
            if rest[:1] not in DIGITS or not rest:
                return False
        if a.get('a') is not None:
            if not a['a']:
                return False
            if not all(isinstance(n, str) and RE_ARCH.match(n) for _e, n in a['a']):
                return False
        if a.get('r') is not None:
            if not a['r'] or not all(g for g in a['r']):
                return False
            if not all(isinstance(p, str) and RE_PROFILE.match(p) for g in a['r'] for _e, p in g):
                return False
        if a.get('k') is not None:
            via, arg = a['k']
            if via not in KEY_ROUTES:
                return False
            if via in ('insert', 'comp', 'fromkeys') and not (isinstance(arg, list) and sorted(arg) == sorted(KEYS)):
                return False
            if via == 'move' and arg not in KEYS:
                return False
        return True
    except (KeyError, TypeError, ValueError):
        return False


def in_domain(rels):
    return (isinstance(rels, list) and bool(rels)
            and all(isinstance(g, list) and g and all(isinstance(a, dict) and atom_in_domain(a) for a in g) for g in rels))


def keyed(canon, k):
    """The dict `canon` (five keys in parse_relations' order) rebuilt the way `k` says: same items, possibly
    another key insertion order.  Only ways a caller would plausibly obtain such a dict."""
    if k is None:
        return canon
    via, arg = k
    if via == 'insert':
        d = {}
        for key in arg:
            d[key] = canon[key]
        return d
    if via == 'comp':
        return {key: canon[key] for key in arg}
    if via == 'fromkeys':
        d = dict.fromkeys(arg)
        d.update(canon)
        return d
    if via == 'sorted':
        return dict(sorted(canon.items()))
    if via == 'rsorted':
        return dict(sorted(canon.items(), reverse=True))
    if via == 'reversed':
        return dict(reversed(list(canon.items())))
    if via == 'move':
        d = dict(canon)
        d[arg] = d.pop(arg)
        return d
    if via == 'copy':
        return copy.copy(canon)
    raise ValueError(via)


_ORDER_MEMO = {}


def key_order(k):
    """Effective key order of an atom built through `k`."""
    if k is None:
        return KEYS
    memo = (k[0], tuple(k[1]) if isinstance(k[1], list) else k[1])
    if memo not in _ORDER_MEMO:
        _ORDER_MEMO[memo] = list(keyed(dict.fromkeys(KEYS), k))
    return _ORDER_MEMO[memo]


def permuted(a):
    return key_order(a.get('k')) != KEYS


def build(PR, desc, canonical=False):
    """Description -> structure in the shape parse_relations documents.  With canonical=True the key-order
    instruction of the atoms is ignored (the oracle; dict equality does not see the difference)."""
    AR, BR = PR.ArchRestriction, PR.BuildRestriction
    out = []
    for grp in desc:
        g = []
        for a in grp:
            d = {'name': a['n'],
                 'archqual': a.get('q'),
                 'version': (a['v'][0], a['v'][1]) if a.get('v') is not None else None,
                 'arch': [AR(bool(e), n) for e, n in a['a']] if a.get('a') is not None else None,
                 'restrictions': ([[BR(bool(e), p) for e, p in grp_] for grp_ in a['r']]
                                  if a.get('r') is not None else None)}
            g.append(d if canonical else keyed(d, a.get('k')))
        out.append(g)
    return out


def archlist_class(al):
    flags = [bool(e) for e, _n in al]
    if all(flags):
        return 'plain'
    if not any(flags):
        return 'negated'
    changes = sum(1 for x, y in zip(flags, flags[1:]) if x != y)
    if changes == 1:
        return 'mixed:plain-then-neg' if flags[0] else 'mixed:neg-then-plain'
    if changes == len(flags) - 1:
        return 'mixed:alternating'
    return 'mixed:irregular'


def shape_of(a):
    return '%s|%s%s%s' % (a['v'][0] if a.get('v') is not None else 'none', 'q' if a.get('q') is not None else '-',
                          'a' if a.get('a') is not None else '-', 'r' if a.get('r') is not None else '-')


def optional_parts(a):
    return sum(1 for k in 'qvar' if a.get(k) is not None)


def diff(PR, got, want):
    """None when `got` is the structure `want`; else (mechanism-suffix, message)."""
    if got == want:
        # same values; now the documented types
        for g in got:
            for d in g:
                if type(d['name']) is not str:
                    return 'type/name', 'name is %r' % type(d['name'])
                for t in d['arch'] or []:
                    if not isinstance(t, PR.ArchRestriction) or type(t.enabled) is not bool:
                        return 'type/arch-term', 'arch term %s is not ArchRestriction(bool, str)' % rp(t)
                for t in itertools.chain.from_iterable(d['restrictions'] or []):
                    if not isinstance(t, PR.BuildRestriction) or type(t.enabled) is not bool:
                        return 'type/restriction-term', 'restriction term %s is not BuildRestriction(bool, str)' % rp(t)
        return None
    if not isinstance(got, list) or len(got) != len(want):
        return 'grouping/and-groups', 'expected %d AND-groups, got %s' % (len(want), rp(got))
    for gi, (g, w) in enumerate(zip(got, want)):
        if not isinstance(g, list) or len(g) != len(w):
            return 'grouping/alternatives', 'group %d: expected %d alternatives, got %s' % (gi, len(w), rp(g))
        for ai, (d, wd) in enumerate(zip(g, w)):
            if d == wd:
                continue
            if not isinstance(d, dict) or set(d) != set(wd):
                return 'atom-keys', 'atom %d.%d: expected keys %r, got %s' % (gi, ai, sorted(wd), rp(d))
            for k in ('name', 'archqual', 'version', 'arch', 'restrictions'):
                if d[k] != wd[k]:
                    return 'field/%s' % k, 'atom %d.%d: %s expected %s, got %s' % (gi, ai, k, rp(wd[k]), rp(d[k]))
    return 'unequal', 'expected %s, got %s' % (rp(want), rp(got))


def roundtrip(ctx, PR, desc, mon=True):
    """format -> parse -> format one description.  Returns (failure, text, given, back);
    failure is None or (mechanism_key, message)."""
    given = build(PR, desc)
    want = build(PR, desc, canonical=True)       # pristine copy in canonical key order: the oracle
    text = back = None
    try:
        text = PR.str(given)
    except Exception as e:
        if mon:
            ctx.mon('M')
        return (('str-raises/%s' % type(e).__name__, 'str(%s) raised %s: %s' % (rp(given), type(e).__name__, str(e)[:300])),
                text, given, back)
    if not isinstance(text, str):
        if mon:
            ctx.mon('M')
        return ('str-returns-non-string', 'str() returned %s' % rp(text)), text, given, back
    try:
        with warnings.catch_warnings(record=True) as caught:
            warnings.simplefilter('always')
            back = PR.parse_relations(text)
    except Exception as e:
        if mon:
            ctx.mon('M')
        return (('parse-raises/%s' % type(e).__name__, 'parse_relations(%s) raised %s: %s' % (
            rp(text), type(e).__name__, str(e)[:300])), text, given, back)
    if mon:
        ctx.mon('M')
    if caught:
        return (('parse-warning', 'parse_relations(%s) warned: %s' % (rp(text), '; '.join(str(w.message)[:300] for w in caught[:3]))),
                text, given, back)
    d = diff(PR, back, want)
    if d is not None:
        return ('roundtrip-differs/%s' % d[0], 'parse_relations(%s): %s' % (rp(text), d[1])), text, given, back
    again = PR.str(back)
    if mon:
        ctx.mon('M.idem')
    if again != text:
        return ('reformat-differs', 'str(R)=%s but str(parse(str(R)))=%s' % (rp(text), rp(again))), text, given, back
    if any(permuted(a) for g in desc for a in g):
        # M.order: an == structure whose dicts list their keys in the canonical order formats to the same string
        canon_text = PR.str(want)       # every comparison against the oracle copy has been made by now
        if mon:
            ctx.mon('M.order')
        if canon_text != text:
            return (('equal-structures-format-differently',
                     'str(R)=%s for dict key orders %s, but str of the == structure in canonical key order is %s' % (
                         rp(text), rp([key_order(a.get('k')) for g in desc for a in g if permuted(a)]), rp(canon_text))),
                    text, given, back)
    return None, text, given, back


def strip_order(desc):
    return [[dict(a, k=None) for a in g] for g in desc]


def shrink(ctx, PR, desc, fail):
    """Smallest re-executable witness: a single atom of the structure that fails on its own."""
    small = desc
    if sum(len(g) for g in desc) > 1:
        for a in (a for g in desc for a in g):
            f = roundtrip(ctx, PR, [[a]], mon=False)[0]
            if f is not None:
                fail, small = f, [[a]]
                break
    # attribution: the same atoms in canonical key order round-trip -> the key order is what str() tripped over
    if any(permuted(a) for g in small for a in g) and roundtrip(ctx, PR, strip_order(small), mon=False)[0] is None:
        fail = ('format-depends-on-key-order/%s' % fail[0],
                '%s [the == structure with canonical key order round-trips; key orders given: %s]' % (
                    fail[1], rp([key_order(a.get('k')) for g in small for a in g if permuted(a)])))
    return fail, {'kind': 'rt', 'rels': small, 'repeat': 2}


def account(ctx, desc):
    nt = False
    for g in desc:
        for a in g:
            shape = shape_of(a)
            ctx.count('shape:' + shape)
            k = a.get('k')
            if k is not None:
                ctx.count('keyorder:via:' + k[0])
            if permuted(a):
                ctx.count('keyorder:permuted')
                ctx.count('kshape:' + shape)
                if key_order(k)[0] != 'name':
                    ctx.count('keyorder:name-not-first')
            else:
                ctx.count('keyorder:canonical')
            if a.get('a') is not None:
                ctx.count('archlist:' + archlist_class(a['a']))
            if optional_parts(a) >= 2:
                nt = True
    return nt


def run_rt(ctx, PR, case):
    desc = case['rels']
    nt = account(ctx, desc)
    # witnesses carry repeat=2: a defect that needs an earlier call in the same process (state kept
    # between parses) then still reproduces from a fresh interpreter
    for _ in range(max(1, min(int(case.get('repeat', 1)), 5))):
        fail = roundtrip(ctx, PR, desc)[0]
        if fail is not None:
            break
    if nt:
        ctx.nontrivial()
    if fail is not None:
        fail, small = shrink(ctx, PR, desc, fail)
        ctx.violation(fail[0], fail[1], small)


def mutate(PR, rels, muts):
    """In-place edits a caller is entitled to make on a structure it owns."""
    AR, BR = PR.ArchRestriction, PR.BuildRestriction
    extra = lambda: {'name': 'zz-mutated', 'archqual': None, 'version': None, 'arch': None, 'restrictions': None}
    done = set()
    for g in rels:
        for d in g:
            if 'arch' in muts and d.get('arch') is not None:
                d['arch'].append(AR(False, 'zzmutarch'))
                done.add('arch')
            if 'term' in muts and d.get('restrictions'):
                d['restrictions'][0].append(BR(False, 'zzmutterm'))
                done.add('term')
            if 'group' in muts and d.get('restrictions') is not None:
                d['restrictions'].append([BR(True, 'zzmutgroup')])
                done.add('group')
            if 'scalar' in muts:
                d['name'] = d['name'] + '-zzmut'
                d['archqual'] = 'zzmutq'
                d['version'] = ('=', '0zzmut')
                if d.get('arch') is None:
                    d['arch'] = [AR(True, 'zzmutarch')]
                if d.get('restrictions') is None:
                    d['restrictions'] = [[BR(True, 'zzmutterm')]]
                done.add('scalar')
        if 'alt' in muts:
            g.append(extra())
            done.add('alt')
    if 'and' in muts:
        rels.append([extra()])
        done.add('and')
    return done


EDITED = [0]      # hist cases that have edited a parse result in this process


def run_hist(ctx, PR, case):
    desc, desc2, muts = case['rels'], case['rels2'], case['muts']
    nt = account(ctx, desc)
    fail, _text, given, back = roundtrip(ctx, PR, desc)
    if fail is not None:
        fail, small = shrink(ctx, PR, desc, fail)
        note = ''
        if EDITED[0]:
            note = (' (note: %d earlier cases of this process edited parse results in place; if this witness does not '
                    'replay on its own, the cause is state shared between parses - see the history/ witnesses)' % EDITED[0])
        ctx.violation(fail[0], fail[1] + note, small)
        return
    EDITED[0] += 1
    for k in mutate(PR, back, muts):
        ctx.count('hist:mut:' + k)
    mutate(PR, given, muts)
    for which, d in (('same', desc), ('regrouped', desc2)):
        f = roundtrip(ctx, PR, d, mon=False)[0]
        ctx.mon('M.hist')
        if f is not None:
            # every atom of `d` round-tripped before the caller edited the earlier result
            ctx.violation('history/fresh-structure-not-returned/%s' % f[0].split('/')[0],
                          'after in-place edits %r of an earlier parse result and of the earlier str() argument, a fresh '
                          '%s structure no longer round-trips: %s' % (muts, which, f[1]), case)
            return
    if nt:
        ctx.nontrivial()


def para_text(PR, cls, idx, fields, pkgname=None):
    lines = ['Package: %s' % (pkgname if pkgname is not None else 'pkg%d' % idx)]
    for name, desc in fields:
        lines.append('%s: %s' % (name, PR.str(build(PR, desc))))
    return lines


def make_paragraphs(PR, cls, init, paras):
    """Build the paragraph objects the way `init` says; None when the paragraph count is off."""
    return objects_from_texts(cls, init, [para_text(PR, cls, i, f) for i, f in enumerate(paras)])


def objects_from_texts(cls, init, texts):
    """Fresh paragraph objects from the lines of each paragraph."""
    if init not in ('text', 'lines', 'iter'):        # 'dict': a mapping field name -> value as str() returned it
        return [cls(dict(l.split(': ', 1) for l in t)) for t in texts]
    # a value that str() chose to fold arrives as the physical lines a caller has after writing the stanza
    texts = [[phys for l in t for phys in l.split('\n')] for t in texts]
    if init == 'iter':
        lines = []
        for t in texts:
            lines.extend(t)
            lines.append('')
        objs = list(cls.iter_paragraphs(lines, use_apt_pkg=False))
        return objs if len(objs) == len(texts) else None
    if init == 'text':
        return [cls('\n'.join(t) + '\n') for t in texts]
    return [cls(list(t)) for t in texts]


def observe_relations(PR, cls, clsname, init, paras, on_eval=None):
    """Read every generated field back through `.relations`.  Returns None (all
    paragraphs gave back their structures), 'count' (paragraph splitter: not this
    property's business) or (key_suffix, message)."""
    try:
        objs = make_paragraphs(PR, cls, init, paras)
    except Exception as e:      # str() raising on a generated structure: attributed by the caller at the bare boundary
        return 'paragraph-construction-raises/%s' % type(e).__name__, '%s(%s) from str() output: %s: %s' % (
            clsname, init, type(e).__name__, str(e)[:300])
    if objs is None:
        return 'count'
    for obj, fields in zip(objs, paras):
        with warnings.catch_warnings(record=True) as caught:
            warnings.simplefilter('always')
            rel = obj.relations
        for name, desc in fields:
            if on_eval is not None:
                on_eval()
            try:
                value = obj[name]
            except KeyError:
                return 'field-missing', '%s(%s): the paragraph built from "%s: <str() output>" has no field %r (str() output %s)' % (
                    clsname, init, name, name, rp(PR.str(build(PR, desc))))
            where = '%s(%s).relations[%r] for field value %s' % (clsname, init, name.lower(), rp(value))
            if caught:
                return 'parse-warning', '%s warned: %s' % (where, '; '.join(str(w.message)[:300] for w in caught[:3]))
            try:
                got = rel[name]
            except KeyError:
                return 'field-missing', '%s: no entry for a present field' % where
            d = diff(PR, got, build(PR, desc))
            if d is not None:
                return 'differs/%s' % d[0], '%s: %s' % (where, d[1])
            again = PR.str(got)
            if again != value:
                return 'reformat-differs', '%s: formats back to %s' % (where, rp(again))
    return None


def run_deb822(ctx, PR, case):
    from debian import deb822
    clsname = case['cls']
    paras, init = case['paras'], case['init']
    if clsname not in CLS_FIELDS or init not in ('text', 'lines', 'dict', 'iter'):
        ctx.count('skipped:out-of-domain')
        return
    cls = getattr(deb822, clsname)
    for fields in paras:
        names = [n.lower() for n, _d in fields]
        if len(set(names)) != len(names) or not all(n in CLS_FIELDS[clsname] for n, _d in fields):
            ctx.count('skipped:out-of-domain')
            return
    nt = False
    for fields in paras:
        for _name, desc in fields:
            nt = account(ctx, desc) or nt
    problem = observe_relations(PR, cls, clsname, init, paras, on_eval=lambda: ctx.mon('M.deb822'))
    if problem == 'count':
        ctx.count('skipped:paragraph-count')
        return
    ctx.count('deb822:%s' % clsname)
    ctx.count('deb822:init:%s' % init)
    if problem is None:
        if nt:
            ctx.nontrivial()
        return
    # attribution: does the bare str/parse_relations boundary already fail on one of these structures?
    for fields in paras:
        for _name, desc in fields:
            f = roundtrip(ctx, PR, desc, mon=False)[0]
            if f is not None:
                f, small = shrink(ctx, PR, desc, f)
                ctx.violation(f[0], f[1], small)
                return
    # specific to the .relations path: look for a one-field witness
    for fields in paras:
        for name, desc in fields:
            one = [[[name, desc]]]
            p1 = observe_relations(PR, cls, clsname, init, one)
            if p1 not in (None, 'count'):
                ctx.violation('relations-property/%s' % p1[0], p1[1],
                              {'kind': 'deb822', 'cls': clsname, 'init': init, 'paras': one})
                return
    ctx.violation('relations-property/%s' % problem[0], problem[1], case)


# ---------------------------------------------------------------------------
# size flavour

def clause_key(c):
    return repr([[a['n'], a.get('q'), a.get('v'), a.get('a'), a.get('r')] for a in c])


def formula_at_least(f, groups, terms):
    return len(f) >= groups and all(len(g) >= terms for g in f)


def measure_size(ctx, desc, text):
    """Count the size classes of the EXECUTED case: on the description and on the string the live str returned."""
    n = len(desc)
    for t in SIZE_CLAUSES:
        if n >= t:
            ctx.count('size:clauses:>=%d' % t)
    widest = max(len(g) for g in desc)
    for t in SIZE_ALTS:
        if widest >= t:
            ctx.count('size:alts:>=%d' % t)
    atoms = [a for g in desc for a in g]
    longest = max([len(a['a']) for a in atoms if a.get('a') is not None] or [0])
    for t in SIZE_ARCHS:
        if longest >= t:
            ctx.count('size:archs:>=%d' % t)
    formulas = [a['r'] for a in atoms if a.get('r') is not None]
    for g, t in SIZE_FORMULAS:
        if any(formula_at_least(f, g, t) for f in formulas):
            ctx.count('size:formula:>=%dx%d' % (g, t))
    for t in SIZE_LENGTHS:
        if len(text) > t:
            ctx.count('size:len:>%d' % t)
    if '\n' in text:                   # informational (see ASSUMPTIONS): str chose to fold the value
        ctx.count('size:text:folded-by-str')
    if len(atoms) == 1:
        for t in SIZE_ATOM_LENGTHS:
            if len(text) > t:
                ctx.count('size:atomlen:>%d' % t)
    seen, rep = set(), 0
    for c in desc:
        k = clause_key(c)
        if k in seen:
            rep += 1
        seen.add(k)
    if rep:
        ctx.count('size:dup:fields-with-repeated-clause')
        ctx.count('size:dup:repeated-clauses', rep)
        if any(len(c) > 1 and clause_key(c) in [clause_key(d) for d in desc[:i]] for i, c in enumerate(desc)):
            ctx.count('size:dup:fields-with-repeated-group')
        if n >= 40:
            ctx.count('size:dup:fields-with-repeated-clause:>=40-clauses')
    if any(len(set(clause_key([a]) for a in g)) < len(g) for g in desc):
        ctx.count('size:dup:fields-with-repeated-alternative')


def minimise(fails, rels, budget=400):
    """A smaller structure on which `fails` (structure -> failure or None) still reports a failure: a single atom, a single
    clause, else a short run of consecutive clauses (shortest failing prefix, then its shortest failing suffix - size and
    repetition defects need the other clauses).  Returns (failure, structure) or None when nothing smaller fails."""
    left = [budget]

    def f(x):
        if left[0] <= 0:
            return None
        left[0] -= 1
        return fails(x)

    if sum(len(g) for g in rels) > 1:
        seen = set()
        for g in rels:
            for a in g:
                k = clause_key([a])
                if k not in seen:
                    seen.add(k)
                    got = f([[a]])
                    if got is not None:
                        return got, [[a]]
        for g in rels:
            if len(g) > 1:
                got = f([g])
                if got is not None:
                    return got, [g]
    if len(rels) < 2:
        return None
    left[0] = max(left[0], 60)
    lo, hi = 1, len(rels)               # invariant aimed at: rels[:hi] fails
    while lo < hi:
        mid = (lo + hi) // 2
        if f(rels[:mid]) is not None:
            hi = mid
        else:
            lo = mid + 1
    best = rels[:hi]
    lo, hi = 0, len(best) - 1           # largest start with best[start:] failing
    while lo < hi:
        mid = (lo + hi + 1) // 2
        if f(best[mid:]) is not None:
            lo = mid
        else:
            hi = mid - 1
    cand = best[lo:]
    if fails(cand) is None:
        cand = best if fails(best) is not None else rels
    # clauses in the middle that are not needed (delta debugging over chunks of clauses, within the budget)
    n = 2
    while len(cand) >= 3 and left[0] > 0:
        chunk = max(1, len(cand) // n)
        for i in range(0, len(cand), chunk):
            less = cand[:i] + cand[i + chunk:]
            if less and f(less) is not None:
                cand, n = less, max(n - 1, 2)
                break
        else:
            if chunk == 1:
                break
            n = min(n * 2, len(cand))
    if len(cand) < len(rels):
        got = fails(cand)
        if got is not None:
            return got, cand
    return None


def shrink_size(ctx, PR, desc, fail):
    got = minimise(lambda x: roundtrip(ctx, PR, x, mon=False)[0], desc)
    small = desc
    if got is not None:
        fail, small = got
    if any(permuted(a) for g in small for a in g) and roundtrip(ctx, PR, strip_order(small), mon=False)[0] is None:
        fail = ('format-depends-on-key-order/%s' % fail[0],
                '%s [the == structure with canonical key order round-trips]' % fail[1])
    note = ' [witness: %d clause(s) / %d atom(s) of a generated field of %d clauses]' % (
        len(small), sum(len(g) for g in small), len(desc))
    return (fail[0], fail[1] + note), {'kind': 'rt', 'rels': small, 'repeat': 2}


def size_in_domain(case):
    try:
        if case['cls'] not in CLS_FIELDS or case['init'] not in SIZE_INITS or not isinstance(case.get('sz'), str):
            return False
        fields = list(case.get('before') or []) + [[case['field'], case['rels']]] + list(case.get('after') or [])
        names = [n.lower() for n, _d in fields]
        if len(set(names)) != len(names) or not all(n in CLS_FIELDS[case['cls']] for n, _d in fields):
            return False
        return all(in_domain(d) for _n, d in fields)
    except (KeyError, TypeError, ValueError):
        return False


def run_size(ctx, PR, case):
    from debian import deb822
    desc = case['rels']
    ctx.count('size:class:%s' % (case['sz'] if case['sz'] in SIZE_CLASSES else 'other'))
    nt = account(ctx, desc)
    # 1. the bare boundary
    fail, text, _given, _back = roundtrip(ctx, PR, desc)
    ctx.mon('M.size')
    if fail is not None:
        fail, small = shrink_size(ctx, PR, desc, fail)
        ctx.violation(fail[0], fail[1], small)
        return
    measure_size(ctx, desc, text)
    # 2. the same value as a field of a paragraph
    clsname, init, name = case['cls'], case['init'], case['field']
    cls = getattr(deb822, clsname)
    before, after = list(case.get('before') or []), list(case.get('after') or [])
    for _n, d in before + after:
        account(ctx, d)
    paras = [before + [[name, desc]] + after]
    problem = observe_relations(PR, cls, clsname, init, paras)
    if problem == 'count':
        ctx.count('skipped:paragraph-count')
        return
    ctx.mon('M.size.deb822')
    ctx.count('size:route:%s' % clsname)
    ctx.count('size:init:%s' % init)
    ctx.count('size:position:%s' % ('only' if not (before or after) else 'first' if not before else
                                    'last' if not after else 'middle'))
    for t in SIZE_LENGTHS:
        if len(text) > t:
            ctx.count('size:init:%s:len:>%d' % (init, t))
    if problem is None:
        if nt or len(desc) >= 2:
            ctx.nontrivial()
        return
    # attribution: a short neighbour field that fails at the bare boundary
    for _n, d in before + after:
        f = roundtrip(ctx, PR, d, mon=False)[0]
        if f is not None:
            f, small = shrink(ctx, PR, d, f)
            ctx.violation(f[0], f[1], small)
            return

    def fails_alone(x):
        p1 = observe_relations(PR, cls, clsname, init, [[[name, x]]])
        return None if p1 in (None, 'count') else p1

    p1 = fails_alone(desc)
    if p1 is None:            # needs the neighbour fields: the case itself is the witness
        ctx.violation('relations-property/%s' % problem[0], problem[1], case)
        return
    got = minimise(fails_alone, desc, budget=150)
    small = desc
    if got is not None:
        p1, small = got
    ctx.violation('relations-property/%s' % p1[0],
                  '%s [witness: %d clause(s) of a generated field of %d clauses; the bare str/parse_relations round trip of '
                  'the whole field holds]' % (p1[1], len(small), len(desc)),
                  {'kind': 'deb822', 'cls': clsname, 'init': init, 'paras': [[[name, small]]]})


# ---------------------------------------------------------------------------
# view flavour: the read paths of the dict-like `.relations` other than the subscript

class ViewModel(object):
    """What one paragraph's `.relations` has to hold: the oracle."""

    def __init__(self, PR, clsname, fields, lines):
        self.doc = DOC_KEYS[clsname]
        self.names = {n.lower(): n for n, _d in fields}               # lower-case key -> field name as written
        self.want = {k: [] for k in self.doc}
        self.text = {}
        for (n, desc), line in zip(fields, lines[1:]):
            self.want[n.lower()] = build(PR, desc, canonical=True)
            self.text[n.lower()] = line.split(': ', 1)[1]
        self.present = [k for k in self.doc if k in self.names]
        self.absent = [k for k in self.doc if k not in self.names]
        self.formatted = {}       # key -> the last value object that was formatted back (second-format check done)


def judge_value(PR, model, k, got, tick):
    """None, or (suffix, message) for the value read for documented key `k`."""
    if tick is not None:
        tick('present' if k in model.names else 'absent')
    if k not in model.names:
        if type(got) is not list or got != []:
            return 'absent-field-not-empty-list', 'documented relationship field %r is not in the paragraph: expected [], got %s' % (
                k, rp(got))
        return None
    if got is None or isinstance(got, (str, bytes)):
        return 'present-field-unparsed/%s' % type(got).__name__, 'field %r (value %s): got %s instead of the parsed structure' % (
            k, rp(model.text[k]), rp(got))
    d = diff(PR, got, model.want[k])
    if d is not None:
        return 'differs/%s' % d[0], 'field %r (value %s): %s' % (k, rp(model.text[k]), d[1])
    if model.formatted.get(k) is got:       # this very object was formatted back before, and it still == the oracle
        return None
    model.formatted[k] = got
    again = PR.str(got)
    if again != model.text[k]:
        return 'reformat-differs', 'field %r (value %s): formats back to %s' % (k, rp(model.text[k]), rp(again))
    return None


def judge_keys(model, keys):
    if len(set(keys)) != len(keys):
        return 'duplicate-keys', 'keys %s' % rp(keys)
    for k in model.doc:
        if k not in keys:
            return ('present-field-missing' if k in model.names else 'absent-field-missing',
                    'no key %r (%s) among %s' % (k, 'a field of the paragraph' if k in model.names
                                                 else 'documented relationship field, not in the paragraph', rp(sorted(keys))))
    return None


def judge_mapping(PR, model, mapping, tick):
    for k in model.doc:
        if k not in mapping:
            return ('present-field-missing' if k in model.names else 'absent-field-missing',
                    'no entry for %r (%s); keys %s' % (k, 'a field of the paragraph' if k in model.names
                                                       else 'documented relationship field, not in the paragraph',
                                                       rp(sorted(mapping))))
        p = judge_value(PR, model, k, mapping[k], tick)
        if p is not None:
            return p
    return None


_NOTHING = object()


def read_view(PR, path, rel, model, env, tick):
    """Apply one read path to the dict-like `rel` and judge what it shows.  None or (suffix, message)."""
    if path == 'sub':
        for k in model.present:
            for spelling in (model.names[k], k):
                try:
                    got = rel[spelling]
                except KeyError:
                    return 'present-field-missing', 'rel[%r] raised KeyError' % spelling
                p = judge_value(PR, model, k, got, tick)
                if p is not None:
                    return p
        for k in model.absent:
            try:
                got = rel[k]
            except KeyError:
                return 'absent-field-missing', 'rel[%r] raised KeyError (documented relationship field, not in the paragraph)' % k
            p = judge_value(PR, model, k, got, tick)
            if p is not None:
                return p
        return None
    if path == 'items':
        pairs = list(rel.items())
        return judge_keys(model, [k for k, _v in pairs]) or judge_mapping(PR, model, dict(pairs), tick)
    if path == 'values':
        vals = list(rel.values())
        keys = list(rel.keys())
        if len(vals) != len(keys):
            return 'values-keys-length-differ', '%d values for keys %s' % (len(vals), rp(keys))
        return judge_keys(model, keys) or judge_mapping(PR, model, dict(zip(keys, vals)), tick)
    if path == 'keys':
        return judge_keys(model, list(rel.keys()))
    if path == 'iter':
        return judge_keys(model, [k for k in rel])
    if path == 'get':
        return judge_mapping(PR, model, {k: rel.get(k) for k in model.doc}, tick)
    if path == 'get-default':
        got = {k: rel.get(k, _NOTHING) for k in model.doc}
        return judge_mapping(PR, model, {k: v for k, v in got.items() if v is not _NOTHING}, tick)
    if path in ('dict', 'unpack', 'copy'):
        m = dict(rel) if path == 'dict' else ({**rel} if path == 'unpack' else rel.copy())
        return judge_keys(model, list(m)) or judge_mapping(PR, model, m, tick)
    if path == 'in':
        for k in model.doc:
            if k not in rel:
                return ('present-field-missing' if k in model.names else 'absent-field-missing'), '%r in rel is False' % k
        return None
    if path == 'len':
        n, keys = len(rel), list(rel.keys())
        if n != len(keys):
            return 'len-differs-from-keys', 'len %d, keys %s' % (n, rp(keys))
        if n < len(model.doc):
            return 'len-below-documented-fields', 'len %d, documented relationship fields %d' % (n, len(model.doc))
        return None
    if path == 'eq':
        twin = env['fresh'](env['pi']).relations              # another object of the same paragraph, never subscripted
        if tick is not None:
            tick('eq')
        if not (rel == twin) or rel != twin or not (twin == rel):
            bad = [k for k in model.doc if rel.get(k, _NOTHING) != twin.get(k, _NOTHING)]
            return 'equal-paragraphs-unequal-relations', ('relations of two objects of the same paragraph compare unequal; '
                                                          'differing keys %s: %s vs %s' % (
                                                              bad, rp([rel.get(k) for k in bad]), rp([twin.get(k) for k in bad])))
        for pj, other in enumerate(env['models']):
            if other.want != model.want:
                o = env['fresh'](pj).relations
                if tick is not None:
                    tick('eq')
                if rel == o or not (rel != o):
                    return 'different-paragraphs-equal-relations', ('relations compare equal to those of a paragraph with '
                                                                    'other field values: %s' % rp(dict(o)))
                break
        if sorted(rel.keys()) == sorted(model.doc):
            if tick is not None:
                tick('eq')
            if not (rel == model.want) or rel != model.want:
                return 'differs-from-expected-mapping', 'rel == expected mapping is False; rel is %s' % rp(dict(rel))
        return None
    raise ValueError(path)


def exec_view(PR, cls, clsname, case, stats=None):
    """Run every plan of a view case on paragraph objects of its own.  None, 'count', or
    (key, message, plan index, step index)."""
    init, paras = case['init'], case['paras']
    try:
        texts = [para_text(PR, cls, i, f, case['pkg'][i] if case.get('pkg') else None) for i, f in enumerate(paras)]
    except Exception as e:
        return 'paragraph-construction-raises/%s' % type(e).__name__, 'str() of a generated structure: %s' % str(e)[:300], 0, 0
    models = [ViewModel(PR, clsname, f, t) for f, t in zip(paras, texts)]
    tick = stats.tick if stats is not None else None

    def fresh(pi):
        return cls(list(texts[pi]))

    for gi, plan in enumerate(case['plans']):
        try:
            objs = objects_from_texts(cls, init, texts)
        except Exception as e:
            return ('paragraph-construction-raises/%s' % type(e).__name__,
                    '%s(%s) from str() output: %s' % (clsname, init, str(e)[:300]), gi, 0)
        if objs is None:
            return 'count'
        held, subscripted, last = {}, set(), None
        for m in models:
            m.formatted.clear()
        for si, (pi, path) in enumerate(plan['steps']):
            phase = 'later' if pi in subscripted else 'first'
            with warnings.catch_warnings(record=True) as caught:
                warnings.simplefilter('always')
                if plan['hold'] and pi in held:
                    rel = held[pi]
                else:
                    rel = held[pi] = objs[pi].relations
                problem = read_view(PR, path, rel, models[pi], {'fresh': fresh, 'pi': pi, 'models': models}, tick)
            if stats is not None:
                stats.step(plan['plan'], path, phase, last is not None and last != pi)
            if problem is None and caught:
                problem = 'parse-warning', 'warned: %s' % '; '.join(str(w.message)[:300] for w in caught[:3])
            if problem is not None:
                return ('relations-view/%s/%s/%s' % (path, phase, problem[0]),
                        '%s(%s) paragraph %d, plan %r step %d of %r [paragraph:read path] (%s): .relations read through %r %s: %s' % (
                            clsname, init, pi, plan['plan'], si, ['%d:%s' % (i, q) for i, q in plan['steps']],
                            'one .relations object kept' if plan['hold'] else '.relations fetched at every step', path,
                            'before any subscript on that object' if phase == 'first' else 'after a subscript on that object',
                            problem[1]), gi, si)
            if path == 'sub':
                subscripted.add(pi)
            last = pi
    return None


class ViewStats(object):
    def __init__(self, ctx):
        self.ctx = ctx

    def tick(self, what):
        if what == 'eq':
            self.ctx.mon('M.view.eq')
        else:
            self.ctx.mon('M.view')
            self.ctx.count('view:' + what)

    def step(self, plan, path, phase, switched):
        self.ctx.count('view:path:%s:%s' % (path, phase))
        if plan == 'alt' and switched:
            self.ctx.count('view:alt-switch')


def view_in_domain(case):
    try:
        if case['cls'] not in CLS_FIELDS or case['init'] not in ('text', 'lines', 'dict', 'iter'):
            return False
        paras = case['paras']
        if not (isinstance(paras, list) and paras):
            return False
        for fields in paras:
            names = [n.lower() for n, _d in fields]
            if not names or len(set(names)) != len(names) or not all(n in CLS_FIELDS[case['cls']] for n, _d in fields):
                return False
            if not all(in_domain(d) for _n, d in fields):
                return False
        if case.get('pkg') is not None and not (
                isinstance(case['pkg'], list) and len(case['pkg']) == len(paras)
                and all(isinstance(n, str) and RE_NAME.match(n) for n in case['pkg'])):
            return False
        pre = case.get('prelude')
        if pre is not None and not (isinstance(pre, list) and len(pre) <= 3
                                    and all(isinstance(c, dict) and 'prelude' not in c and view_in_domain(c) for c in pre)):
            return False
        if not (isinstance(case['plans'], list) and case['plans']):
            return False
        for plan in case['plans']:
            if plan['plan'] not in VIEW_PLANS or not isinstance(plan['hold'], bool) or not plan['steps']:
                return False
            for pi, path in plan['steps']:
                if not (isinstance(pi, int) and 0 <= pi < len(paras)) or path not in VIEW_STEPS:
                    return False
        return True
    except (KeyError, TypeError, ValueError):
        return False


def view_candidates(PR, cls, clsname, case, problem):
    """Smaller cases that fail when executed in THIS process, smallest first: one field of the paragraph that was
    being read; that paragraph alone; the failing plan alone, cut after the failing step.  (This process has
    executed other cases before, so a candidate is only a candidate: see confirm_view.)"""
    gi, si = problem[2], problem[3]
    plan = case['plans'][gi]
    out = []
    trunc = dict(case, plans=[dict(plan, steps=plan['steps'][:si + 1])])
    if exec_view(PR, cls, clsname, trunc) in (None, 'count'):
        return out
    out.append(trunc)
    pi = plan['steps'][si][0]
    steps = [[0, q] for i, q in trunc['plans'][0]['steps'] if i == pi]
    one = dict(trunc, paras=[case['paras'][pi]], plans=[dict(plan, steps=steps)])
    if case.get('pkg'):
        one['pkg'] = [case['pkg'][pi]]
    if exec_view(PR, cls, clsname, one) in (None, 'count'):
        return out
    out.insert(0, one)
    for field in case['paras'][pi]:
        cand = dict(one, paras=[[field]])
        if exec_view(PR, cls, clsname, cand) not in (None, 'count'):
            out.insert(0, cand)
            break
    return out


def standalone(case):
    """Entry point of the confirmation subprocess: execute one view case, return [key, message] or None."""
    from debian import deb822
    from debian.deb822 import PkgRelation as PR
    if not view_in_domain(case):
        return ['out-of-domain', '']
    for c in list(case.get('prelude') or []) + [case]:
        p = exec_view(PR, getattr(deb822, c['cls']), c['cls'], c)
        if p not in (None, 'count'):
            return [p[0], p[1]]
    return None


_STANDALONE = ('import sys, json\n'
               'from vp import core\n'
               'core.bootstrap_repo()\n'
               'from vp.props import c13\n'
               'sys.stdout.write("RESULT " + json.dumps(c13.standalone(json.load(sys.stdin))))\n')


def fails_standalone(case):
    """Does `case` fail when it is the only thing a fresh interpreter executes (what --replay does)?
    [key, message], None (passes), or 'unknown'."""
    import json
    import subprocess
    import sys
    from .. import core
    try:
        p = subprocess.run([sys.executable, '-B', '-c', _STANDALONE], input=json.dumps(case).encode('ascii'),
                           stdout=subprocess.PIPE, stderr=subprocess.DEVNULL, timeout=120, cwd=core.VERIF)
        out = p.stdout.decode('utf-8', 'replace')
        if p.returncode != 0 or 'RESULT ' not in out:
            return 'unknown'
        return json.loads(out.split('RESULT ', 1)[1])
    except Exception:
        return 'unknown'


CONFIRM_BUDGET = [4]      # violations per shard process whose witness is confirmed in a fresh interpreter
PREV_VIEW = [None]        # the view case this process executed before the current one


def confirm_view(PR, cls, clsname, case, problem):
    """((key, message), witness).  The library may keep state between paragraph objects, and this process has read
    thousands of them: a witness is only worth something if it fails from a fresh interpreter.  The candidates - the
    in-process shrinks, the case itself, the case with the preceding case as prelude - are therefore executed in a
    subprocess, smallest first, and the first that fails there is reported."""
    bare = {k: v for k, v in case.items() if k != 'prelude'}
    with_prev = dict(bare, prelude=[PREV_VIEW[0]]) if PREV_VIEW[0] is not None else None
    fallback = case if case.get('prelude') else (with_prev or bare)
    if CONFIRM_BUDGET[0] <= 0:
        return (problem[0], problem[1] + ' [witness: the whole case with the preceding case of this process as prelude; '
                'not re-executed in a fresh interpreter - confirmation budget of this shard used up]'), fallback
    CONFIRM_BUDGET[0] -= 1
    cands = view_candidates(PR, cls, clsname, bare, problem) + [bare] + ([with_prev] if with_prev is not None else [])
    for cand in cands:
        got = fails_standalone(cand)
        if got == 'unknown':
            break
        if got is not None and got[0] != 'out-of-domain':
            return (got[0], got[1]), cand
    return (problem[0], problem[1] + ' [NOT reproduced from a fresh interpreter, neither alone nor with the preceding case '
            'as prelude: the value read depends on paragraph objects this process handled earlier]'), fallback


def run_view(ctx, PR, case):
    from debian import deb822
    clsname = case['cls']
    cls = getattr(deb822, clsname)
    for pre in case.get('prelude') or []:        # witnesses only: what the process had executed just before
        p = exec_view(PR, getattr(deb822, pre['cls']), pre['cls'], pre)
        if p not in (None, 'count'):
            ctx.violation(p[0], p[1] + ' [in the prelude of the replayed case]', pre)
            return
    nt = False
    for fields in case['paras']:
        for _name, desc in fields:
            nt = account(ctx, desc) or nt
    problem = exec_view(PR, cls, clsname, case, ViewStats(ctx))
    if problem == 'count':
        ctx.count('skipped:paragraph-count')
        return
    ctx.count('view:%s' % clsname)
    ctx.count('view:init:%s' % case['init'])
    for plan in case['plans']:
        ctx.count('view:plan:%s' % plan['plan'])
        ctx.count('view:rel:%s' % ('kept' if plan['hold'] else 'refetched'))
    ctx.count('view:package-names:%s' % ('distinct' if len(set(case.get('pkg') or [0, 1])) > 1 else 'same'))
    if problem is None:
        PREV_VIEW[0] = {k: v for k, v in case.items() if k != 'prelude'}
        if nt:
            ctx.nontrivial()
        return
    # attribution: does the bare str/parse_relations boundary already fail on one of these structures?
    for fields in case['paras']:
        for _name, desc in fields:
            f = roundtrip(ctx, PR, desc, mon=False)[0]
            if f is not None:
                f, small = shrink(ctx, PR, desc, f)
                ctx.violation(f[0], f[1], small)
                return
    if ctx.replay:
        ctx.violation(problem[0], problem[1], case)
        return
    found, witness = confirm_view(PR, cls, clsname, case, problem)
    ctx.violation(found[0], found[1], witness)
    PREV_VIEW[0] = {k: v for k, v in case.items() if k != 'prelude'}


def run_case(ctx, case):
    from debian.deb822 import PkgRelation as PR
    kind = case.get('kind')
    ctx.count('flavour:%s' % kind)
    if kind == 'rt':
        if not in_domain(case['rels']):
            ctx.count('skipped:out-of-domain')
            return
        run_rt(ctx, PR, case)
    elif kind == 'hist':
        if not (in_domain(case['rels']) and in_domain(case['rels2'])):
            ctx.count('skipped:out-of-domain')
            return
        run_hist(ctx, PR, case)
    elif kind == 'deb822':
        if not all(in_domain(d) for f in case['paras'] for _n, d in f):
            ctx.count('skipped:out-of-domain')
            return
        run_deb822(ctx, PR, case)
    elif kind == 'size':
        if not size_in_domain(case):
            ctx.count('skipped:out-of-domain')
            return
        run_size(ctx, PR, case)
    elif kind == 'view':
        if not view_in_domain(case):
            ctx.count('skipped:out-of-domain')
            return
        run_view(ctx, PR, case)
    else:
        ctx.count('skipped:out-of-domain')


def conclusive(tier, counters, monitor_evals, extra):
    """Extra inconclusive conditions: the complete shape matrix must have been observed."""
    missing = [s for s in SHAPES if counters.get('shape:' + s, 0) < SHAPE_FLOOR[tier]]
    if missing:
        return 'shape matrix incomplete: %d of %d (operator x optional parts) shapes below %d observations: %s' % (
            len(missing), len(SHAPES), SHAPE_FLOOR[tier], ', '.join(missing[:8]))
    missing = [s for s in SHAPES if counters.get('kshape:' + s, 0) < KSHAPE_FLOOR[tier]]
    if missing:
        return ('shape matrix under permuted dict key order incomplete: %d of %d shapes below %d observations: %s' % (
            len(missing), len(SHAPES), KSHAPE_FLOOR[tier], ', '.join(missing[:8])))
    if counters.get('skipped:out-of-domain', 0):
        return 'generator produced %d out-of-domain cases (harness defect)' % counters['skipped:out-of-domain']
    if counters.get('skipped:paragraph-count', 0) > (counters.get('flavour:deb822', 0) + counters.get('flavour:view', 0) + counters.get('flavour:size', 0)) // 10:
        return 'deb822 flavour: iter_paragraphs returned an unexpected paragraph count too often'
    return None


LEVEL_TEXT = ('Runtime monitoring: 10^5 (quick) / 2*10^6 (thorough) generated relation structures plus a complete '
              '(operator or none) x {arch qualifier, arch list, restriction formula} x position matrix are formatted by the '
              'live PkgRelation.str, parsed by the live PkgRelation.parse_relations under a recording warnings filter, and '
              'compared with the structure itself (values, documented namedtuple types, second formatting).  A history '
              'flavour edits earlier parse results in place before parsing fresh structures made of the same atoms; a '
              'third flavour reads the result through Packages/Sources .relations by subscript; a fourth reads the dict-like '
              '.relations through every other read path (items, values, keys, iteration, get, dict(), {**}, copy, ==, in, '
              'len) on fresh paragraph objects before and after the first subscript and on two objects alternately, '
              'documented absent relationship fields reading as [].  A fifth flavour covers size and repetition: fields of '
              '20..400 (thorough ..600) comma clauses, alternatives groups of 10..30, architecture lists of 10..20, restriction '
              'formulas up to 6 groups x 5 terms, formatted values just above 80 / 200 / 998 / 1000 / 4096 / 10000 characters '
              '(counted on the text the live str returned), single atoms above 80 / 200 characters and exactly repeated '
              'clauses / groups / alternatives, each judged at the bare boundary and through Packages/Sources '
              '.relations[field].  About half of the per-relation dicts '
              'reach str with a permuted key insertion order (same items; str must give the string of the == canonical '
              'structure), a quarter of the architecture lists mix negated and plain names.  Held-on-observed, not a proof.')
LEVEL_NOTE = ('Trusted: CPython, the generators and vp.models.dpkgver.classify (version validity).  Domain restricted to '
              'lower-case policy-valid names/profiles, non-empty lists (architecture lists uniformly plain, uniformly '
              'negated or mixed - each name carries its own flag), plain dicts with all five keys in any insertion order, '
              'text produced by PkgRelation.str only.')
TECHNIQUE = ('runtime monitoring: boundary oracle M (the generated structure itself) on PkgRelation.parse_relations('
             'PkgRelation.str(R)) with warning capture and re-format check; M.order (str of a structure whose dicts have '
             'permuted key order equals str of the == canonical structure); history monitor M.hist (in-place edits of earlier '
             'results between parses); M.deb822 observes the same boundary through Packages/Sources .relations[name]; '
             'M.view / M.view.eq observe it through the other read paths of the dict-like .relations (items, values, keys, '
             'iteration, get, dict(), {**}, copy, ==/!=, in, len) before and after the first subscript, on fresh paragraph '
             'objects and on two objects read alternately; M.size / M.size.deb822 apply the same oracle to named size and '
             'repetition classes (many clauses, wide groups, long lists, long values, repeated clauses), the classes being '
             'measured on the executed case and floor-guarded')
