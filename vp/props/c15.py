"""C15 - changelog parsing is total and strictness-consistent; formatted output
is a normal form.

Deciding monitor M (boundary, public API only), three parts:

* M.total      lenient ``Changelog(T, allow_empty_author=a)`` returned (any
               exception is a violation);
* M.strict     ``Changelog(T, strict=True, allow_empty_author=a)`` raised
               ChangelogParseError  <=>  the lenient parse of the same T emitted
               at least one warning (warnings recorded with catch_warnings);
* M.normalform whenever ``str(c)`` does not raise ChangelogCreateError, S=str(c)
               is re-parsed: same number of blocks, same (package, version,
               distributions, urgency, changes, author, date) per block, and
               ``str(Changelog(S)) == S``; the urgency comment and the extra
               key=value pairs of the heading are compared too (own mechanism
               key), as the design's block signature says.
  M.history    the same normal-form check after a short history of editing
               calls (new_block with random argument subsets, add_change,
               attribute assignments) on an empty or a parsed changelog.

Reach evidence: a sys.monitoring LINE probe (vp.probes.LocalsProbe) on
``Changelog.parse_changelog`` reads the generator-local ``state`` and ``line``
once per input line; the set of (parser state, line class) pairs visited is
reported, and fewer than 40 distinct pairs makes the run inconclusive.
"""
import inspect
import os
import warnings

from .. import probes
from ..models import clgen15 as g

PROP = 'C15'
LEVEL = 'exploration'
RULE = ('Texts: 1-3 generated well-formed blocks (urgency comments, extra key=value pairs, blank/whitespace lines, '
        'non-ASCII) or 1-3 consecutive blocks cut from the repository\'s changelog fixtures, mutated by 0-4 line '
        'insertions, deletions, duplications or in-place replacements (junk pool of ~40 line classes: bare/bad/one-/three-space trailers, emacs/vim mode lines and '
        'near misses, CVS keywords, #, /* */, the eight old-format headings, tabs, headings with missing ;, bad, '
        'repeated or rich key=value lists, odd spacing/versions/packages, non-ASCII; biased to the positions before '
        'the first heading and after the last trailer); in addition every junk spelling is enumerated alone, first, '
        'after the heading, inside the changes, last, as the heading and as the trailer of an otherwise regular block; '
        'each text is run with allow_empty_author False and True.  A text case is non-trivial when the lenient parse warned or the text '
        'contains at least one line outside {conforming heading, blank, change, conforming trailer}.  Histories: <= 8 '
        'editing calls on an empty or parsed (well-formed, fixture or mutated) changelog with well-formed argument '
        'values, plus the enumerated matrix (irregular heading | irregular trailer | text ending inside the block) x '
        '(each attribute assignment, add_change, new_block); non-trivial when the result is formattable and the '
        'history has >= 2 calls.')
ASSUMPTIONS = [
    'input texts are str (the constructor decodes bytes itself; undecodable bytes are outside "input text")',
    '"can be formatted" = str(changelog) does not raise ChangelogCreateError; such cases are skipped and counted',
    'editing calls receive well-formed argument values only (package/version/distribution/urgency tokens, authors of '
    'the form "name <mail>", dates matching the trailer grammar, change lines indented by two spaces, no embedded line '
    'breaks, urgency comments starting with a blank and free of commas); the statement does not cover argument validation',
    'warnings are observed with warnings.catch_warnings(record=True) + simplefilter("always"); any recorded warning counts',
    'the re-parse of the output uses the same allow_empty_author value as the first parse',
    'line classes in the reach evidence come from the harness classifier (vp.models.clgen15.line_class), not from the library',
]
ANCHORS = ['debian.changelog:Changelog.parse_changelog',
           'debian.changelog:Changelog._parse_error',
           'debian.changelog:Changelog._format',
           'debian.changelog:Changelog.new_block',
           'debian.changelog:Changelog.add_change',
           'debian.changelog:ChangeBlock.add_change',
           'debian.changelog:ChangeBlock.add_trailing_line',
           'debian.changelog:ChangeBlock._format']
MUST_REACH = ['debian.changelog:Changelog.parse_changelog', 'debian.changelog:Changelog.new_block',
              'debian.changelog:ChangeBlock.add_change', 'debian.changelog:ChangeBlock._format']

TEXTS = {'quick': 20000, 'thorough': 1000000}
HISTS = {'quick': 4000, 'thorough': 300000}
MIN_PAIRS = 100      # design floor is 40; the enumeration part alone yields ~200 on the current tree

_Q_COUNTERS = {
    'warn:bad-trailer': 500, 'warn:bad-urgency-value': 350, 'warn:empty-file': 10, 'warn:eof-inside-block': 2000,
    'warn:invalid-key-value': 500, 'warn:repeated-key': 500, 'warn:unexpected-line-at-start-of-changes': 4000,
    'warn:unexpected-line-before-first-heading': 4000, 'warn:unexpected-line-between-blocks': 4000,
    'warn:unexpected-line-in-changes': 5000,
    'sole:bad-trailer': 100, 'sole:bad-urgency-value': 40, 'sole:empty-file': 10, 'sole:eof-inside-block': 300,
    'sole:invalid-key-value': 60, 'sole:repeated-key': 90, 'sole:unexpected-line-at-start-of-changes': 1700,
    'sole:unexpected-line-before-first-heading': 1700, 'sole:unexpected-line-between-blocks': 1900,
    'sole:unexpected-line-in-changes': 2500,
    'strict:accepted': 6500, 'strict:raised': 14000, 'normalform:eof-block': 1500, 'normalform:rich-heading': 11000,
    'op:new_block': 2900, 'op:add_change': 3200, 'op:set': 2000, 'op:bset': 2400,
    'hist:from-empty': 800, 'hist:from-parsed': 2700,
}
_T_COUNTERS = {
    'warn:bad-trailer': 28000, 'warn:bad-urgency-value': 18000, 'warn:empty-file': 25, 'warn:eof-inside-block': 94000,
    'warn:invalid-key-value': 26000, 'warn:repeated-key': 26000, 'warn:unexpected-line-at-start-of-changes': 200000,
    'warn:unexpected-line-before-first-heading': 195000, 'warn:unexpected-line-between-blocks': 195000,
    'warn:unexpected-line-in-changes': 240000,
    'sole:bad-trailer': 4700, 'sole:bad-urgency-value': 1500, 'sole:empty-file': 25, 'sole:eof-inside-block': 14500,
    'sole:invalid-key-value': 2300, 'sole:repeated-key': 4500, 'sole:unexpected-line-at-start-of-changes': 80000,
    'sole:unexpected-line-before-first-heading': 80000, 'sole:unexpected-line-between-blocks': 89000,
    'sole:unexpected-line-in-changes': 115000,
    'strict:accepted': 320000, 'strict:raised': 670000, 'normalform:eof-block': 74000, 'normalform:rich-heading': 515000,
    'op:new_block': 210000, 'op:add_change': 230000, 'op:set': 150000, 'op:bset': 77000,
    'hist:from-empty': 60000, 'hist:from-parsed': 90000,
}
FLOORS = {
    'quick': {'nontrivial': 9500,
              'monitors': {'M.total': 21000, 'M.strict': 21000, 'M.normalform': 20000, 'M.history': 3000,
                           'P.state-line': 300000},
              'counters': _Q_COUNTERS},
    'thorough': {'nontrivial': 470000,
                 'monitors': {'M.total': 1000000, 'M.strict': 1000000, 'M.normalform': 970000, 'M.history': 125000,
                              'P.state-line': 15000000},
                 'counters': _T_COUNTERS},
}

FIXTURES = ['test_changelog', 'test_changelog_unicode', 'test_strange_changelog', 'test_changelog_full_stops',
            'test_modify_changelog1', 'test_modify_changelog2', 'test_modify_changelog3']

# the nine places where parse_changelog reports a problem, by message prefix
WARN_SITES = [('Empty changelog file', 'empty-file'),
              ('Invalid key-value pair', 'invalid-key-value'),
              ('Repeated key-value', 'repeated-key'),
              ('Badly formatted urgency value', 'bad-urgency-value'),
              ('Unexpected line while looking for first heading', 'unexpected-line-before-first-heading'),
              ('Unexpected line while looking for next heading', 'unexpected-line-between-blocks'),
              ('Unexpected line while looking for start of change data', 'unexpected-line-at-start-of-changes'),
              ('Unexpected line while looking for more change data', 'unexpected-line-in-changes'),
              ('Unexpected line while looking for', 'unexpected-line-other-state'),
              ('Badly formatted trailer line', 'bad-trailer'),
              ('Found eof where expected', 'eof-inside-block')]

_STATE = {'probe': None, 'gate': False}

# a regular block that parses without any warning (urgency comment + extra pairs, whitespace-only and
# trailing-whitespace change lines); the enumerated cases put exactly one irregular line into it
ENUM_BASE = ['base-pkg (1.0-1) unstable; urgency=low (HIGH for users of diversions), binary-only=yes, closes=123',
             '', '  * change one', '    continuation  ', '  ', '  [ X ]', '  * change two', '',
             ' -- A B <a@b.c>  Mon, 1 Jan 2001 00:00:00 +0000', '']
ENUM_ASSIGN = [('package', 'newpkg'), ('version', '9:9.9-9'), ('distributions', 'stable testing'), ('urgency', 'HIGH'),
               ('urgency_comment', ' (security)'), ('other_pairs', {'XS-Foo': 'bar baz'}),
               ('author', 'New Author <n@a>'), ('date', 'Tue, 2 Jan 2001 01:02:03 +0100')]

# mechanism: topline accepts a version containing ';' but the key=value list is cut at the FIRST ';' of the
# line (inside the version), so urgency / comment / extra pairs written by _format are not read back
SEMI_KEY = 'semicolon-in-version-misplaces-key-value-split'


def warn_site(message):
    for prefix, slug in WARN_SITES:
        if message.startswith(prefix):
            return slug
    return 'other-warning'


# ---------------------------------------------------------------------------
# reach probe

class GatedLocals(probes.LocalsProbe):
    """LocalsProbe that only materialises the frame locals while the gate is open
    (one parse per text is observed; the other parses of the same case run at
    nearly full speed)."""

    def _on_line(self, code, line):
        if line != self.lineno:
            return probes.mon.DISABLE
        if _STATE['gate']:
            self.cb(probes.sys._getframe(1).f_locals)
        return None


def setup(ctx):
    from debian import changelog as cl
    pairs = ctx.extra.setdefault('state_line_pairs', set())
    ctx.extra['state_probe'] = 'detached'
    try:
        fn = cl.Changelog.parse_changelog
        src, start = inspect.getsourcelines(fn)
        target = None
        seen_loop = False
        for i, l in enumerate(src):
            s = l.strip()
            if s.startswith('for line in'):
                seen_loop = True
            # first statement of the per-line dispatch: both `state` and the stripped `line` are bound
            if seen_loop and (s.startswith('if state in') or s.startswith('if state ==')):
                target = start + i
                break
        if target is None:
            return

        def cb(loc):
            st, ln = loc.get('state'), loc.get('line')
            if isinstance(st, str) and isinstance(ln, str):
                pairs.add('%s | %s' % (st, g.line_class(ln)))
                ctx.mon('P.state-line')

        p = GatedLocals(fn.__code__, target, cb)
        p.start()
        _STATE['probe'] = p
        ctx.extra['state_probe'] = 'attached at changelog.py:%d' % target
    except Exception as e:      # evidence only: an unattachable probe => inconclusive via conclusive()
        ctx.extra['state_probe'] = 'detached (%s)' % type(e).__name__


def finish(ctx):
    p = _STATE['probe']
    if p is not None:
        p.stop()
        _STATE['probe'] = None


def conclusive(tier, counters, monitor_evals, extra):
    n = len(extra.get('state_line_pairs', []))
    if n < MIN_PAIRS:
        return ('LINE probe on parse_changelog saw only %d distinct (parser state, line class) pairs, floor %d (%s)'
                % (n, MIN_PAIRS, extra.get('state_probe')))
    return None


# ---------------------------------------------------------------------------
# workload

def _fixture_blocks(ctx):
    """Fixture files split into blocks (heading line .. line before the next heading)."""
    import debian
    tdir = os.path.join(os.path.dirname(os.path.abspath(debian.__file__)), 'tests')
    out = []
    for name in FIXTURES:
        path = os.path.join(tdir, name)
        try:
            with open(path, encoding='utf-8') as f:
                lines = f.read().split('\n')
        except (OSError, UnicodeDecodeError):
            ctx.count('fixture-missing')
            continue
        if lines and lines[-1] == '':
            lines.pop()
        blocks, cur = [], []
        for l in lines:
            if l[:1] not in ('', ' ', '\t') and ';' in l and '(' in l and cur:
                blocks.append(cur)
                cur = []
            cur.append(l)
        if cur:
            blocks.append(cur)
        out.append((name, lines, blocks))
    return out


def cases(ctx):
    fixtures = _fixture_blocks(ctx)
    # 1. every fixture whole, unmutated (shard 0) and every junk line alone / first / last (enumerated)
    idx = 0
    for name, lines, _b in fixtures:
        if ctx.mine(idx):
            yield {'kind': 'text', 'text': '\n'.join(lines) + '\n', 'aea': [False, True], 'src': 'fixture:' + name}
        idx += 1
    base = list(ENUM_BASE)
    for cls in g.JUNK_CLASSES:
        for j in g.JUNK[cls]:
            for where in ('alone', 'first', 'after-heading', 'in-changes', 'last', 'last-twice', 'as-heading',
                          'as-second-heading', 'as-trailer'):
                if ctx.mine(idx):
                    if where == 'alone':
                        ls = [j]
                    elif where == 'as-heading':           # j is the only irregular line of an otherwise regular block
                        ls = [j] + base[1:]
                    elif where == 'as-second-heading':
                        ls = base + [j] + base[1:]
                    elif where == 'as-trailer':
                        ls = base[:-2] + [j, ''] + base
                    elif where == 'first':
                        ls = [j] + base
                    elif where == 'after-heading':
                        ls = base[:1] + [j] + base[1:]
                    elif where == 'in-changes':
                        ls = base[:3] + [j] + base[3:]
                    elif where == 'last':
                        ls = base + [j]
                    else:
                        ls = base + [j, j] + base
                    yield {'kind': 'text', 'text': '\n'.join(ls) + '\n', 'aea': [False, True], 'src': 'enum:' + cls}
                idx += 1
    for t in ['', '\n', ' \n\t\n', '\n\n\n', 'x', ' \n']:
        if ctx.mine(idx):
            yield {'kind': 'text', 'text': t, 'aea': [False, True], 'src': 'enum:empty'}
        idx += 1

    # 1b. enumerated single edits on blocks with one irregular line: (irregular heading | irregular trailer |
    #     text ending inside the block) x (every attribute assignment, add_change, new_block)
    edits = [[['bset', 0, a, v]] for a, v in ENUM_ASSIGN]
    edits.append([['bset', 0, 'author', 'New Author <n@a>'], ['bset', 0, 'date', 'Tue, 2 Jan 2001 01:02:03 +0100']])
    edits.append([['add_change', '  * added']])
    edits.append([['new_block', {'package': 'n', 'version': '2', 'distributions': 'unstable', 'urgency': 'low',
                                 'changes': ['', '  * new', ''], 'author': 'N <n@a>',
                                 'date': 'Tue, 2 Jan 2001 01:02:03 +0100'}]])
    starts = []
    for cls in g.JUNK_CLASSES:
        for j in g.JUNK[cls]:
            if cls.startswith('heading') or cls.startswith('old3'):
                starts.append([j] + base[1:])
                starts.append(base + [j] + base[1:])
            if cls.startswith('trailer') or cls == 'bare-trailer':
                starts.append(base[:-2] + [j, ''])
                starts.append(base[:-2] + [j, ''] + base)
    for k in range(1, len(base) - 1):
        starts.append(base[:k])
        starts.append(base + base[:k])
    for ls in starts:
        for ops in edits:
            for aea in (False, True):
                if ctx.mine(idx):
                    yield {'kind': 'hist', 'start': '\n'.join(ls) + '\n', 'aea': aea, 'ops': ops, 'src': 'enum'}
                idx += 1

    # 2. random mutated texts
    r = ctx.rng('texts')
    for i in range(ctx.size(TEXTS['quick'], TEXTS['thorough'])):
        if fixtures and r.random() < 0.2:
            name, _l, blocks = r.choice(fixtures)
            k = r.randrange(len(blocks))
            lines = [l for b in blocks[k:k + r.randint(1, 3)] for l in b]
            src = 'fixture:' + name
        else:
            lines = g.wellformed(r)
            src = 'gen'
        lines, ops = g.mutate(r, lines, r.choice([0, 1, 1, 2, 2, 3, 4]))
        text = '\n'.join(lines) + ('\n' if lines and r.random() < 0.93 else '')
        yield {'kind': 'text', 'text': text, 'aea': [False, True], 'src': src, 'muts': ops}

    # 3. editing histories
    r = ctx.rng('hists')
    for i in range(ctx.size(HISTS['quick'], HISTS['thorough'])):
        yield gen_history(r, fixtures)


def _new_block_kwargs(r):
    kw = {'package': g.pkg(r), 'version': g.ver(r), 'distributions': g.dist(r), 'urgency': g.urgency(r),
          'author': g.author(r), 'date': g.date(r)}
    if r.random() < 0.2:
        kw['version'] = {'__version__': kw['version']}
    if r.random() < 0.6:
        kw['changes'] = g.arg_changes(r)
    if r.random() < 0.3:
        kw['urgency_comment'] = g.arg_urgency_comment(r)
    if r.random() < 0.3:
        kw['other_pairs'] = g.arg_other_pairs(r)
    k = r.random()
    if k < 0.15:                    # random subset of the arguments
        for name in r.sample(sorted(kw), r.randint(1, 3)):
            kw.pop(name)
    return kw


def gen_history(r, fixtures):
    start, aea = None, False
    k = r.random()
    if k < 0.35:
        start = '\n'.join(g.wellformed(r)) + '\n'
    elif k < 0.45 and fixtures:
        name, _l, blocks = r.choice(fixtures)
        j = r.randrange(len(blocks))
        start = '\n'.join(l for b in blocks[j:j + r.randint(1, 2)] for l in b) + '\n'
    elif k < 0.60:
        lines, _ops = g.mutate(r, g.wellformed(r), r.randint(1, 3))
        start = '\n'.join(lines) + '\n'
        aea = r.random() < 0.4
    ops = []
    nblocks_known = 0 if start is None else None     # None: unknown (parsed) - ops are guarded at run time
    for _ in range(r.randint(1, 8)):
        kind = r.choice(['new_block', 'new_block', 'add_change', 'add_change', 'add_change', 'set', 'set', 'bset'])
        if nblocks_known == 0:
            kind = 'new_block'
        if kind == 'new_block':
            ops.append(['new_block', _new_block_kwargs(r)])
            if nblocks_known is not None:
                nblocks_known += 1
        elif kind == 'add_change':
            ops.append(['add_change', r.choice([g.change(r).rstrip(), g.change(r).rstrip(), '', '  '])])
        else:
            attr = r.choice(['version', 'package', 'distributions', 'urgency', 'author', 'date'])
            val = {'version': g.ver, 'package': g.pkg, 'distributions': g.dist, 'urgency': g.urgency,
                   'author': g.author, 'date': g.date}[attr](r)
            if kind == 'set':
                ops.append(['set', attr, val])
            else:
                if r.random() < 0.3:
                    attr = r.choice(['urgency_comment', 'other_pairs'])
                    val = g.arg_urgency_comment(r) if attr == 'urgency_comment' else g.arg_other_pairs(r)
                ops.append(['bset', r.randint(0, 2), attr, val])
    return {'kind': 'hist', 'start': start, 'aea': aea, 'ops': ops}


# ---------------------------------------------------------------------------
# oracle helpers

def _version_of(b):
    """Public `version` where the raw string is a valid Version, else the raw string."""
    try:
        v = b.version
        return None if v is None else str(v)
    except Exception:
        return 'raw:%r' % (getattr(b, '_raw_version', '<unreadable>'),)


def sig7(b):
    return {'package': b.package, 'version': _version_of(b), 'distributions': b.distributions,
            'urgency': b.urgency, 'changes': list(b.changes()), 'author': b.author, 'date': b.date}


def sig_extra(b):
    return {'urgency_comment': b.urgency_comment, 'other_pairs': dict(b.other_pairs)}


def _parse(text, aea, strict=False):
    from debian import changelog as cl
    with warnings.catch_warnings(record=True) as w:
        warnings.simplefilter('always')
        c = cl.Changelog(text, allow_empty_author=aea, strict=strict)
    return c, [str(x.message) for x in w]


def normal_form(ctx, c, aea, small, mon, eof_hint=False):
    """c: a live Changelog.  Returns True when the check was evaluated."""
    from debian import changelog as cl
    try:
        s = str(c)
    except cl.ChangelogCreateError:
        ctx.count('unformattable')
        return False
    except Exception as e:
        ctx.violation('format-raises-other-than-create-error/%s' % type(e).__name__, repr(e), small)
        return False
    ctx.mon(mon)
    try:
        c2, w2 = _parse(s, aea)
    except Exception as e:
        ctx.violation('reparse-of-output-raises/%s' % type(e).__name__, '%r on output %r' % (e, s), small)
        return True
    if w2:
        ctx.count('reparse-warned')
    b1, b2 = list(c), list(c2)
    if len(b1) != len(b2):
        ctx.violation('reparse-block-count-differs', '%d blocks formatted, %d blocks parsed back from %r'
                      % (len(b1), len(b2), s), small)
        return True
    for n, (x, y) in enumerate(zip(b1, b2)):
        sx, sy = sig7(x), sig7(y)
        if sx != sy:
            diff = [k for k in sorted(sx) if sx[k] != sy[k]]
            attr = diff[0]
            key = 'reparse-blocks-differ/%s' % attr
            if (set(diff) <= {'author', 'date'} and all(sy[k] is None for k in diff)
                    and eof_hint and n == len(b1) - 1):
                # mechanism: the last block was parsed from a text that ended inside it (lenient parse warned
                # "Found eof where expected ..."); author/date assigned afterwards are never written by _format
                key = 'author-date-assigned-to-eof-truncated-block-not-formatted'
            elif diff == ['urgency'] and ';' in (sx['version'] or ''):
                key = SEMI_KEY
            ctx.violation(key, 'block %d %s: formatted from %r, parsed back %r; output %r'
                          % (n, attr, sx[attr], sy[attr], s), small)
            return True
    for n, (x, y) in enumerate(zip(b1, b2)):
        sx, sy = sig_extra(x), sig_extra(y)
        if sx != sy:
            attr = [k for k in sorted(sx) if sx[k] != sy[k]][0]
            key = 'reparse-heading-extras-differ/%s' % attr
            if ';' in (_version_of(x) or ''):
                key = SEMI_KEY
            ctx.violation(key, 'block %d %s: formatted from %r, parsed back %r; output %r'
                          % (n, attr, sx[attr], sy[attr], s), small)
            return True
    try:
        s2 = str(c2)
    except Exception as e:
        ctx.violation('reparsed-output-cannot-be-formatted', '%r; output %r' % (e, s), small)
        return True
    if s2 != s:
        ctx.violation('output-not-a-fixpoint', 'str(c)=%r but str(Changelog(str(c)))=%r' % (s, s2), small)
    return True


def check_text(ctx, text, aea):
    from debian import changelog as cl
    small = {'kind': 'text', 'text': text, 'aea': [aea]}
    # --- totality of the lenient constructor (the one observed parse of this text)
    _STATE['gate'] = True
    try:
        c, w = _parse(text, aea)
    except Exception as e:
        ctx.violation('lenient-constructor-raises/%s' % type(e).__name__, '%r (allow_empty_author=%r) on %r' % (e, aea, text), small)
        return False
    finally:
        _STATE['gate'] = False
    ctx.mon('M.total')
    warned = bool(w)
    sites = set(warn_site(x) for x in w)
    for m in sites:
        ctx.count('warn:' + m)
    if len(sites) == 1:       # the text has problems of one kind only: strict mode must raise at exactly that site
        ctx.count('sole:' + min(sites))
    # --- strict raises <=> lenient warned
    raised, sw = False, []
    try:
        _c, sw = _parse(text, aea, strict=True)
    except cl.ChangelogParseError:
        raised = True
    except Exception as e:
        ctx.violation('strict-raises-other-than-parse-error/%s' % type(e).__name__, '%r on %r' % (e, text), small)
        return warned
    ctx.mon('M.strict')
    ctx.count('strict:raised' if raised else 'strict:accepted')
    if warned and not raised:
        ctx.violation('strict-does-not-raise-on/%s' % warn_site(w[0]),
                      'lenient warned %r but strict=True returned normally (strict-mode warnings: %r); allow_empty_author=%r'
                      % (w[:3], sw[:3], aea), small)
    elif raised and not warned:
        ctx.violation('strict-raises-without-lenient-warning', 'strict=True raised ChangelogParseError, lenient emitted no '
                      'warning; allow_empty_author=%r; text %r' % (aea, text), small)
    elif sw:
        ctx.violation('strict-warns-instead-of-raising/%s' % warn_site(sw[0]), 'strict=True emitted warnings %r' % sw[:3], small)
    # --- normal form
    if normal_form(ctx, c, aea, small, 'M.normalform'):
        if len(c) and any(b.urgency_comment or b.other_pairs for b in c):
            ctx.count('normalform:rich-heading')
        if 'eof-inside-block' in sites:
            ctx.count('normalform:eof-block')
    return warned


def apply_ops(ctx, c, ops):
    from debian import debian_support as ds
    done = 0
    for op in ops:
        kind = op[0]
        if kind == 'new_block':
            kw = dict(op[1])
            if isinstance(kw.get('version'), dict):
                kw['version'] = ds.Version(kw['version']['__version__'])
            c.new_block(**kw)
        elif len(c) == 0:
            ctx.count('op:skipped-no-block')
            continue
        elif kind == 'add_change':
            c.add_change(op[1])
        elif kind == 'set':
            setattr(c, op[1], op[2])
        elif kind == 'bset':
            idx = op[1] % len(c)
            setattr(c[idx], op[2], op[3])
        else:
            raise ValueError('unknown op %r' % (op,))
        ctx.count('op:' + kind)
        done += 1
    return done


def run_case(ctx, case):
    kind = case['kind']
    if kind == 'text':
        text = case['text']
        warned = False
        for aea in case.get('aea', [False, True]):
            warned = check_text(ctx, text, bool(aea)) or warned
        off_path = any(g.line_class(l) not in ('heading-ok', 'heading-rich', 'blank-ish', 'change-ok', 'trailer-ok')
                       for l in text.split('\n'))
        if warned or off_path:
            ctx.nontrivial(case={'text': text})
        ctx.count('src:' + case.get('src', 'replay').split(':')[0])
    elif kind == 'hist':
        from debian import changelog as cl
        aea = bool(case.get('aea', False))
        eof = False
        if case.get('start') is None:
            c = cl.Changelog()
            ctx.count('hist:from-empty')
        else:
            try:
                c, _w = _parse(case['start'], aea)
            except Exception as e:
                ctx.violation('lenient-constructor-raises/%s' % type(e).__name__, '%r (allow_empty_author=%r) on %r'
                              % (e, aea, case['start']), {'kind': 'text', 'text': case['start'], 'aea': [aea]})
                return
            ctx.count('hist:from-parsed')
            eof = any(warn_site(x) == 'eof-inside-block' for x in _w)
        done = apply_ops(ctx, c, case['ops'])
        if normal_form(ctx, c, aea, case, 'M.history', eof_hint=eof) and done >= 2:
            ctx.nontrivial(case={'start': case.get('start'), 'ops': case['ops']})
    else:
        raise ValueError('unknown case kind %r' % kind)


LEVEL_TEXT = ('Runtime monitoring: mutated changelog texts (generated well-formed blocks and the repository\'s fixtures, '
              '0-4 line insertions from a ~40-class junk pool / deletions / duplications, every junk spelling also '
              'enumerated alone, before the first heading, after the heading, inside the changes and after the last '
              'trailer) are parsed by the live tree leniently and strictly with allow_empty_author off and on; the '
              'boundary monitor checks that the lenient constructor returned, that strict raised ChangelogParseError '
              'exactly when lenient warned, and that every formattable result re-parses to the same blocks and formats '
              'to the identical text; the same normal-form check runs after short histories of new_block / add_change / '
              'attribute assignments.  A sys.monitoring LINE probe on parse_changelog records which (parser state, line '
              'class) pairs were visited.  Held-on-observed: reach is the sampled texts and histories.')
LEVEL_NOTE = ('Trusted: CPython, the warnings machinery, the harness line classifier (evidence only).  Not covered: bytes / '
              'file-object inputs, max_blocks, malformed argument values to the editing calls, _format(allow_missing_author=True).')
TECHNIQUE = ('runtime monitoring: differential boundary oracle M (strict vs lenient parse of the same text, warnings captured) '
             'plus idempotence oracle (format -> re-parse -> format) on parsed and programmatically edited changelogs; '
             'sys.monitoring LINE probe on parse_changelog for (state, line class) reach; deciding monitor M.strict/M.normalform')
