"""C15 - changelog parsing is total and strictness-consistent; formatted output
is a normal form.

Deciding monitor M (boundary, public API only), three parts:

* M.total      lenient ``Changelog(T, allow_empty_author=a)`` returned (any
               exception is a violation);
* M.strict     ``Changelog(T, strict=True, allow_empty_author=a)`` raised
               ChangelogParseError  <=>  the lenient parse of the same T emitted
               at least one warning (warnings recorded with catch_warnings);
* M.normalform whenever ``str(c)`` does not raise ChangelogCreateError, S=str(c)
               is re-parsed: same number of blocks, same (package, version,
               distributions, urgency, changes, author, date) per block, and
               ``str(Changelog(S)) == S``; the urgency comment and the extra
               key=value pairs of the heading are compared too (own mechanism
               key), as the design's block signature says.
  M.history    the same normal-form check after a short history of editing
               calls (new_block with random argument subsets, add_change,
               attribute assignments) on an empty or a parsed changelog.
  M.history-mid  the same check on the text formatted in the MIDDLE of a
               history (op ``fmt``), after which the history goes on.
  M.model      histories also run on a plain-data model (one dict of the nine
               public observables per block).  After every call all blocks are
               read back through iteration and compared: an assigned attribute
               reads back the assigned value on the addressed block (cl[i],
               cl[i-len], i-th element of iteration, list(cl)[i]) and nothing
               else changed; add_change/ChangeBlock.add_change added exactly one
               entry to that block (position free); new_block stores what was
               passed (defaults free) and shifts the rest; formatting changes no
               observable.  The re-parsed final output must equal this model as
               well as the live blocks ("the output reflects the current state
               of every block").
  M.blockwise  block n formats to the same text before and after the re-parse
               (reported inside output-not-a-fixpoint when the whole text
               differs, as block-output-not-a-fixpoint when only a block does).
  M.vobject    Version OBJECTS cross the API in both directions: histories hand a
               debian.debian_support.Version to new_block / the version setters and
               mutate the CALLER'S object afterwards, and read Version objects from the
               changelog (cl.version, cl.get_version(), cl[i].version, cl.versions[i],
               cl.get_versions()[i]) and mutate those.  After every such mutation all
               blocks are read back and compared with the model (the version that was
               SET stays), the Changelog-level views (cl.version, get_version(),
               versions, get_versions()) must show the model's versions, and
  M.vobject-format  the text formatted right after the mutation must be a normal form
               of the model (same oracle as M.history-mid).
  M.normalform-strict  irregular-blanks class only: when ``Changelog(T, strict=True)`` returned, THAT object
               is "a parsed changelog" as well - the same normal-form check runs on it (keys suffixed
               ``/strictly-parsed-object``); and the text formatted from the lenient object is fed back as an
               input text of its own (totality, strict <=> warned, normal form once more).
  N.twin       NON-DECIDING note: the history without its mid-history formats,
               run on a second object, ends in the same text (layout purity of
               str(); the statement is silent on it).

Reach evidence: a sys.monitoring LINE probe (vp.probes.LocalsProbe) on
``Changelog.parse_changelog`` reads the generator-local ``state`` and ``line``
once per input line; the set of (parser state, line class) pairs visited is
reported, and fewer than 40 distinct pairs makes the run inconclusive.
"""
import collections
import copy
import inspect
import os
import warnings

from .. import probes
from ..models import clgen15 as g

PROP = 'C15'
LEVEL = 'exploration'
RULE = ('Texts: 1-3 generated well-formed blocks (urgency comments, extra key=value pairs, blank/whitespace lines, '
        'non-ASCII) or 1-3 consecutive blocks cut from the repository\'s changelog fixtures, mutated by 0-4 line '
        'insertions, deletions, duplications or in-place replacements (junk pool of ~40 line classes: bare/bad/one-/three-space trailers, emacs/vim mode lines and '
        'near misses, CVS keywords, #, /* */, the eight old-format headings, tabs, headings with missing ;, bad, '
        'repeated or rich key=value lists, odd spacing/versions/packages, non-ASCII; biased to the positions before '
        'the first heading and after the last trailer); in addition every junk spelling is enumerated alone, first, '
        'after the heading, inside the changes, last, as the heading and as the trailer of an otherwise regular block; '
        'each text is run with allow_empty_author False and True.  A text case is non-trivial when the lenient parse warned or the text '
        'contains at least one line outside {conforming heading, blank, change, conforming trailer}.  Histories: <= 8 '
        'editing calls on an empty or parsed (well-formed, fixture or mutated) changelog with well-formed argument '
        'values, plus the enumerated matrix (irregular heading | irregular trailer | text ending inside the block) x '
        '(each attribute assignment, add_change, new_block); non-trivial when the result is formattable and the '
        'history has >= 2 calls.  '
        'Multi-block class: texts of 2-4 regular, pairwise different blocks (generated, or consecutive fixture blocks) with one '
        '(20%: two) irregular-but-accepted construct in a NON-last block - own trailer respelled with ONE space before the '
        'date, junk trailer / heading spellings, respelled own heading (repeated key, no pairs, upper-case key, odd spacing, '
        'tab, invalid pair, trailing comma, bad urgency, urgency not first), junk between blocks, junk inside the changes, '
        'layout (missing / extra blank lines), old-format or mode lines; every heading / trailer / between-blocks junk spelling '
        'is also enumerated in block 0 of 2, 0 of 3 and 1 of 3 fixed different blocks.  These run through the same text oracle '
        '(both allow_empty_author values) with the block-by-block comparison.  '
        'Multi-block histories: start = 2-4 well-formed blocks, 2-4 fixture blocks, a multi-block text of the class above, a '
        'mutated 2-3 block text, or 2-4 new_block calls; 3-9 further calls, mostly attribute assignments (author, date, '
        'urgency, distributions, package, version, urgency_comment, other_pairs) and ChangeBlock.add_change on block i (i '
        'biased to >= 1) reached through cl[i], cl[i-len(cl)], the i-th element of iteration or list(cl)[i], assignment to '
        'every block while iterating, plus Changelog-level calls; at least one str(cl) (25% of the formats: str(cl[i])) '
        'happens BEFORE a later edit, the text formatted there is checked as a normal form too, and the history ends with the '
        'usual final check; an enumerated matrix (irregular construct in block k) x (target block) x (each assignment / '
        'add_change) x (edit | format,edit | edit,format,edit | block-format,edit,format,edit) x handle is run as well.  '
        'Formatting look-alike class: the tokens % %s %d %(x)s 100% %% { } {0} and a backslash (plus {} {x %(x %r \\1 '
        '\\g<x> ${x} %c %*d {0.a} {:{w}}) occur (a) in well-formed texts and in the argument values of the editing calls - '
        'spliced into 25% of the change lines, in half of the author names, a third of the mail addresses, urgency comments '
        'and extra-pair values - and (b) in 19 additional junk classes, one per KIND of line the parser can report or accept: '
        'rejected key=value pair, rejected urgency value, repeated key with the token in the values, accepted rich heading, '
        'token in the version / package / heading without ";", one-space trailer (reported and accepted), regular trailer, '
        'non-trailer " -- ..." lines, stray text, one-space / tab / non-ASCII lines, change lines, # /* */ $Id$ comments, '
        'emacs / vim mode lines and old-format headings.  One spelling per token and class is enumerated alone, first, after '
        'the heading, inside the changes, last, as the heading, as the trailer, in a non-last block and as the start of the '
        'enumerated edit matrix; the random generators (one junk line in four) draw from the full template x token product; '
        'own-heading variants append a look-alike pair / urgency value.  Counters fmt:reported:<site>:<percent|brace|backslash> '
        'and fmt:reported-token:<token> are measured on the text of the warnings the live parser emitted.  '
        'Version-object class: histories (start = empty + new_block, 1-3 well-formed blocks, fixture blocks, a multi-block '
        'irregular text or a mutated text; 4-10 further calls) in which a debian.debian_support.Version OBJECT is handed to '
        'new_block(version=V), cl.version = V, cl.set_version(V), cl[i].version = V (all four handles) or to every block while '
        'iterating (one object for all blocks), kept by the caller and mutated LATER (assignments to upstream_version, '
        'debian_revision, debian_version, epoch, full_version; None for epoch / revision), possibly handed over AGAIN after the '
        'mutation (same object to a second block); and in which Version objects READ from the changelog (cl.version, '
        'cl.get_version(), cl[i].version through the four handles, cl.versions[i], cl.get_versions()[i]) are kept and mutated, '
        'interleaved with ordinary edits, new_block calls (the block moves to an older index) and mid-history formats; an '
        'enumerated matrix (empty+new_block | one block | three blocks) x (every hand-over path | every read path, every block) '
        'x (seven mutations) x (mutate | mutate,format | format,mutate | mutate,edit,format | mutate twice) is run as well.  '
        'Counters vobj:mutated:<origin> / vobj:mutated-attr:<attribute> count only mutations that changed str(object).  '
        'Irregular-blanks class: headings and trailers of the deb-changelog(5) shape whose blanks between the items are runs '
        'of 2, 3, 4, 7 spaces, one or two tabs or space/tab mixtures, in 23 slots (heading: package|(, )|first distribution, '
        'between distributions, before and after ";", around "=" of urgency, urgency value|comment, inside the comment, before '
        'and after ",", around "=" of an extra pair, inside its value, end of line; trailer: after " --", inside the name, '
        'name|<, inside <mail>, >|date, day-of-week|day, inside the date, end of line).  Enumerated: every slot x 11 runs on a '
        'plain block (two distributions) and a rich block (three distributions, urgency comment, two extra pairs, three-word '
        'name), plus every run in all free-form slots of the heading / the trailer / both at once; each as the only block, as '
        'the first of two, the last of two and the middle of three different regular blocks (quick: the only-block placement '
        'plus one of the others in rotation).  Random: 1-3 blocks, at least one with 1-5 slots respelled (own run per slot, '
        'per gap for 40% of the multi-gap slots; runs up to 16 spaces), the others regular; 10% get one ordinary mutation on '
        'top.  Which slots the live parser accepts silently is measured, not assumed (counters ws:accepted-silently:<slot>, '
        'ws:warned:<slot> on single-slot texts).  Every such text goes through the text oracle with both allow_empty_author '
        'values; in addition the strictly parsed object (when strict returns) is checked as a normal form, and the formatted '
        'output is run through the text oracle as an input of its own.  A text of this class is non-trivial when its normal '
        'form was evaluated.  Histories: the enumerated 3-space and space-tab-space spellings as the only block / the middle '
        'of three blocks x (every attribute assignment, add_change, new_block) x (edit | format, edit), and random histories '
        '(multi-block history generator, well-formed argument values) on random texts of the class.')
ASSUMPTIONS = [
    'input texts are str (the constructor decodes bytes itself; undecodable bytes are outside "input text")',
    '"can be formatted" = str(changelog) does not raise ChangelogCreateError; such cases are skipped and counted',
    'editing calls receive well-formed argument values only (package/version/distribution/urgency tokens, authors of '
    'the form "name <mail>", dates matching the trailer grammar, change lines indented by two spaces, no embedded line '
    'breaks, urgency comments starting with a blank and free of commas); the statement does not cover argument validation',
    'warnings are observed with warnings.catch_warnings(record=True) + simplefilter("always"); any recorded warning counts',
    'the re-parse of the output uses the same allow_empty_author value as the first parse',
    'line classes in the reach evidence come from the harness classifier (vp.models.clgen15.line_class), not from the library',
    'history model (M.model): "the blocks of a programmatically edited changelog" are taken to be what the editing calls '
    'wrote - a well-formed value assigned to a public attribute of a block reads back equal through the same public attribute, '
    'an edit addressed to block i leaves every other block and every other attribute as it was, formatting (str) is not an '
    'editing call and changes no public attribute; NOT demanded: where add_change puts the new entry, which defaults '
    'new_block uses for arguments that were not passed, anything about private layout state',
    'blocks are addressed only through int indexing (also negative), iteration and list(); lookup by version string / Version '
    'object is not used (versions may repeat or be invalid in mutated texts)',
    'mid-history formatting uses str(changelog) and str(block) only; a ChangelogCreateError there is counted and the '
    'history continues (the changelog may become formattable later)',
    'a different final TEXT with and without the mid-history formats, or two consecutive str() calls giving different text, '
    'while each text is a normal form of the current blocks, is outside the statement: recorded as a non-deciding note '
    '(counters note:*, evidence key notes_non_deciding), never a verdict',
    'the block-by-block comparison uses str(block) of the i-th block before and after the re-parse; blocks are paired by '
    'position (the block count is compared first)',
    'for multi-block texts nothing is demanded of the FIRST parse of an irregular text (which block a junk line lands in, '
    'whether blocks merge); only totality, strict/lenient agreement and the normal form of whatever was parsed',
    'characters with a meaning in Python string formatting (% { } backslash $) are ordinary text of a changelog: lines, author '
    'names, mail addresses, urgency comments and extra-pair values containing them are inside "every input text", and as '
    'argument values they count as well-formed (they contain no line break, no comma in an urgency comment, no "<" ">" '
    'beyond the author form); versions and package names given to the editing calls stay free of them',
    'nothing is demanded of the TEXT of a warning or of the ChangelogParseError (only that lenient returned, and that strict '
    'raised ChangelogParseError exactly when lenient warned); the fmt:* counters read the warning text for reach evidence '
    'only.  str(ChangelogParseError) raising, or the strict error text not containing the first lenient warning, is a '
    'non-deciding note (note:parse-error-cannot-be-printed, note:strict-error-text-lacks-first-lenient-warning)',
    'Version objects: "attribute assignment" / new_block with a debian.debian_support.Version V sets the version str(V) shows AT '
    'THE TIME OF THE CALL (for a fresh Version(s): s); the changelog is edited only through its own editing calls, so a later '
    'assignment to an attribute of the caller\'s object, or of a Version object obtained from cl.version / cl.get_version() / '
    'block.version / cl.versions / cl.get_versions(), is not an editing call and must leave every public attribute of every '
    'block, the Changelog-level version views and the formatted text (re-parsed) at the version that was set.  NOT demanded: '
    'that the objects handed out are distinct or fresh (only the absence of the effect), anything about the Version object '
    'itself (a ValueError or any other exception from the mutation is the Version class\'s business - property C14 - and is '
    'counted, vobj:mutation-rejected / note:version-mutation-raises-other), that the call leaves the caller\'s object unchanged '
    '(note:callers-version-object-changed-by-the-call), cl.full_version / epoch / upstream_version / debian_revision views',
    'mutation values are well-formed version components; a Version object is read only through block handles / views of the '
    'changelog under test; reading a version from a block whose raw version string is not a valid version (mutated texts) may '
    'raise - counted (vobj:read-unreadable), nothing held; Changelog-level views are compared only when the model versions '
    'they have to construct are valid or unset',
    'irregular-blanks class: nothing is demanded of the FIRST parse of such a heading or trailer (whether it is accepted, '
    'warned about, which blanks are kept or normalised) beyond totality and strict <=> warned; demanded is what the statement '
    'says of any parsed changelog that can be formatted: re-parsing str(c) gives the same blocks (all nine observables) and '
    'str() of the re-parsed object is the identical text - compared between the FIRST output and the second, so a '
    'normalisation that needs two rounds to settle is a violation, an idempotent one (on input or on output) is not',
    'a changelog returned by Changelog(T, strict=True) is "a parsed changelog" in the sense of the normal-form clause; its '
    'output is re-parsed with strict=True as well (the same way it was parsed), leniently when that raises ChangelogParseError '
    '(counted, not judged).  That the strictly and the leniently parsed object show the '
    'same blocks is NOT in the statement: a difference is a non-deciding note (note:strict-and-lenient-objects-differ)',
    'the formatted output of an accepted text is itself an input text (the quantifier is "every input text"): it is run '
    'through the totality / strict <=> warned / normal-form oracle once (no further recursion)',
    'histories of the irregular-blanks class pass regular argument values only (single blanks): whether an ASSIGNED '
    'distributions / author / date string with blank runs must read back verbatim is left open',
]
ANCHORS = ['debian.changelog:Changelog.parse_changelog',
           'debian.changelog:Changelog._parse_error',
           'debian.changelog:Changelog._format',
           'debian.changelog:Changelog.new_block',
           'debian.changelog:Changelog.add_change',
           'debian.changelog:ChangeBlock.add_change',
           'debian.changelog:ChangeBlock.add_trailing_line',
           'debian.changelog:ChangeBlock._format',
           'debian.changelog:ChangeBlock._set_version',
           'debian.changelog:Changelog.set_version']
MUST_REACH = ['debian.changelog:Changelog.parse_changelog', 'debian.changelog:Changelog.new_block',
              'debian.changelog:ChangeBlock.add_change', 'debian.changelog:ChangeBlock._format']

TEXTS = {'quick': 20000, 'thorough': 1000000}
HISTS = {'quick': 4000, 'thorough': 300000}
MTEXTS = {'quick': 4000, 'thorough': 200000}     # multi-block texts, irregular construct in a non-last block
MHISTS = {'quick': 3000, 'thorough': 150000}     # histories on >= 2 blocks: older-block edits, mid-history formats
VHISTS = {'quick': 3000, 'thorough': 150000}     # Version-object histories (caller's / read objects mutated later)
WTEXTS = {'quick': 1600, 'thorough': 80000}      # random texts of the irregular-blanks class
WHISTS = {'quick': 500, 'thorough': 25000}       # random histories starting from such texts
MIN_PAIRS = 100      # design floor is 40; the enumeration part alone yields ~200 on the current tree

_Q_COUNTERS = {
    'warn:bad-trailer': 1900, 'warn:bad-urgency-value': 690, 'warn:empty-file': 10, 'warn:eof-inside-block': 2600,
    'warn:invalid-key-value': 1100, 'warn:repeated-key': 780, 'warn:unexpected-line-at-start-of-changes': 4600,
    'warn:unexpected-line-before-first-heading': 4600, 'warn:unexpected-line-between-blocks': 5400,
    'warn:unexpected-line-in-changes': 5800, 'sole:bad-trailer': 1100, 'sole:bad-urgency-value': 230,
    'sole:empty-file': 10, 'sole:eof-inside-block': 400, 'sole:invalid-key-value': 430, 'sole:repeated-key': 210,
    'sole:unexpected-line-at-start-of-changes': 2000, 'sole:unexpected-line-before-first-heading': 1900,
    'sole:unexpected-line-between-blocks': 2900, 'sole:unexpected-line-in-changes': 3200, 'strict:accepted': 8100,
    'strict:raised': 19000, 'normalform:eof-block': 1800, 'normalform:rich-heading': 15000, 'op:new_block': 6700,
    'op:add_change': 4400, 'op:set': 3500, 'op:bset': 11000, 'hist:from-empty': 1500, 'hist:from-parsed': 9100,
    # multi-block class (irregular construct in a non-last block; older-block edits; mid-history formats):
    # a run that never exercises it is inconclusive
    'multi:texts': 4700, 'multi:normalform-on-2+-blocks': 4100, 'multi:warned-and-2+-blocks': 2900,
    'multi:bad-trailer-accepted-in-non-last-block': 1100, 'multi:irregular-in-middle-block': 1000,
    'multi:family:own-trailer-one-space': 850, 'multi:family:trailer-junk': 720, 'multi:family:heading-junk': 910,
    'multi:family:own-heading-variant': 570, 'multi:family:between': 770, 'multi:family:in-changes': 260,
    'multi:family:layout': 270, 'multi:family:slurp': 260, 'op:badd': 2200, 'op:seteach': 680, 'op:fmt': 4000,
    'op:fmt-block': 830, 'op:edit-after-mid-format': 6700, 'older:bset': 4200, 'older:badd': 1400,
    'older:seteach': 540, 'older:edit-after-mid-format': 2900, 'older-attr:author': 380, 'older-attr:date': 680,
    'older-attr:urgency': 450, 'older-attr:distributions': 370, 'older-attr:package': 390, 'older-attr:version': 1100,
    'older-attr:urgency_comment': 380, 'older-attr:other_pairs': 360, 'older-attr:changes': 1400,
    'handle:index': 1600, 'handle:neg': 1300, 'handle:iter': 1300, 'handle:list': 1300,
    'hist:final-format-after-mid-format-and-edit': 2500, 'hist:final-format-after-older-block-edit': 3000,
    # formatting look-alike class (%, {, }, backslash in reported / accepted lines and in argument values):
    # measured on the text of the warnings the live parser emitted; a run that never has the parser report
    # such a line is inconclusive
    'fmt:accepted-silently:backslash': 3300, 'fmt:accepted-silently:brace': 4800,
    'fmt:accepted-silently:percent': 5200, 'fmt:hist-arg:backslash': 1600, 'fmt:hist-arg:brace': 2500,
    'fmt:hist-arg:percent': 2700, 'fmt:hist-start:backslash': 2000, 'fmt:hist-start:brace': 3100,
    'fmt:hist-start:percent': 3800, 'fmt:normalform:backslash': 10000, 'fmt:normalform:brace': 16000,
    'fmt:normalform:percent': 17000, 'fmt:reported-on-2+-blocks': 1400, 'fmt:reported-token:%': 440,
    'fmt:reported-token:%%': 580, 'fmt:reported-token:%(x)s': 690, 'fmt:reported-token:%d': 730,
    'fmt:reported-token:%s': 1100, 'fmt:reported-token:100%': 770, 'fmt:reported-token:backslash': 1700,
    'fmt:reported-token:{': 790, 'fmt:reported-token:{0}': 1100, 'fmt:reported-token:}': 710,
    'fmt:reported:bad-trailer:backslash': 230, 'fmt:reported:bad-trailer:brace': 410,
    'fmt:reported:bad-trailer:percent': 480, 'fmt:reported:bad-urgency-value:backslash': 39,
    'fmt:reported:bad-urgency-value:brace': 120, 'fmt:reported:bad-urgency-value:percent': 170,
    'fmt:reported:invalid-key-value:backslash': 63, 'fmt:reported:invalid-key-value:brace': 180,
    'fmt:reported:invalid-key-value:percent': 220, 'fmt:reported:unexpected-line-at-start-of-changes:backslash': 260,
    'fmt:reported:unexpected-line-at-start-of-changes:brace': 670,
    'fmt:reported:unexpected-line-at-start-of-changes:percent': 830,
    'fmt:reported:unexpected-line-before-first-heading:backslash': 340,
    'fmt:reported:unexpected-line-before-first-heading:brace': 770,
    'fmt:reported:unexpected-line-before-first-heading:percent': 1000,
    'fmt:reported:unexpected-line-between-blocks:backslash': 540,
    'fmt:reported:unexpected-line-between-blocks:brace': 1000,
    'fmt:reported:unexpected-line-between-blocks:percent': 1300,
    'fmt:reported:unexpected-line-in-changes:backslash': 320, 'fmt:reported:unexpected-line-in-changes:brace': 790,
    'fmt:reported:unexpected-line-in-changes:percent': 1000, 'fmt:site-on-text-with-special:bad-trailer': 1500,
    'fmt:site-on-text-with-special:bad-urgency-value': 600, 'fmt:site-on-text-with-special:eof-inside-block': 1900,
    'fmt:site-on-text-with-special:invalid-key-value': 950, 'fmt:site-on-text-with-special:repeated-key': 690,
    'fmt:site-on-text-with-special:unexpected-line-at-start-of-changes': 3900,
    'fmt:site-on-text-with-special:unexpected-line-before-first-heading': 3700,
    'fmt:site-on-text-with-special:unexpected-line-between-blocks': 4500,
    'fmt:site-on-text-with-special:unexpected-line-in-changes': 4700, 'fmt:strict-raised-on:backslash': 1000,
    'fmt:strict-raised-on:brace': 2400, 'fmt:strict-raised-on:percent': 3300,
    # Version-object class (a Version handed to new_block / the setters and mutated by the caller afterwards; a Version
    # read from the changelog and mutated): counted only when str(object) changed; a run that never does it is inconclusive
    'hist:final-format-after-version-object-mutation': 2000, 'vobj:edit-after-mutation': 2400,
    'vobj:format-after-mutation': 780, 'vobj:format-checked-after-mutation:passed-to-new_block': 590,
    'vobj:format-checked-after-mutation:passed-to-setter': 1000,
    'vobj:format-checked-after-mutation:read-from-changelog': 1100, 'vobj:handed-again-after-mutation': 100,
    'vobj:handed:bset': 1700, 'vobj:handed:new_block': 1400, 'vobj:handed:set': 560, 'vobj:handed:seteach': 280,
    'vobj:mutated-after-mid-format': 900, 'vobj:mutated-attr:debian_revision': 790,
    'vobj:mutated-attr:debian_version': 650, 'vobj:mutated-attr:epoch': 660, 'vobj:mutated-attr:full_version': 700,
    'vobj:mutated-attr:upstream_version': 700, 'vobj:mutated-kind:passed-to-new_block': 760,
    'vobj:mutated-kind:passed-to-setter': 1300, 'vobj:mutated-kind:read-from-changelog': 1400,
    'vobj:mutated-object-handed-to-several-blocks': 140, 'vobj:mutated-while-block-is:every-block': 150,
    'vobj:mutated-while-block-is:newest': 2500, 'vobj:mutated-while-block-is:older': 890,
    'vobj:mutated:arg:bset': 870, 'vobj:mutated:arg:new_block': 760, 'vobj:mutated:arg:set': 320,
    'vobj:mutated:arg:seteach': 150, 'vobj:mutated:read:block': 410, 'vobj:mutated:read:cl.version': 210,
    'vobj:mutated:read:get_version': 200, 'vobj:mutated:read:get_versions': 250, 'vobj:mutated:read:versions': 250,
    'vobj:read-from-older-block': 660, 'vobj:read-handle:index': 170, 'vobj:read-handle:iter': 190,
    'vobj:read-handle:list': 220, 'vobj:read-handle:neg': 210, 'vobj:read:block': 830, 'vobj:read:cl.version': 410,
    'vobj:read:get_version': 410, 'vobj:read:get_versions': 450, 'vobj:read:versions': 430,
}
_T_COUNTERS = {
    'warn:bad-trailer': 89000, 'warn:bad-urgency-value': 33000, 'warn:empty-file': 24,
    'warn:eof-inside-block': 100000, 'warn:invalid-key-value': 43000, 'warn:repeated-key': 34000,
    'warn:unexpected-line-at-start-of-changes': 210000, 'warn:unexpected-line-before-first-heading': 190000,
    'warn:unexpected-line-between-blocks': 230000, 'warn:unexpected-line-in-changes': 260000,
    'sole:bad-trailer': 51000, 'sole:bad-urgency-value': 9600, 'sole:empty-file': 24, 'sole:eof-inside-block': 15000,
    'sole:invalid-key-value': 14000, 'sole:repeated-key': 8800, 'sole:unexpected-line-at-start-of-changes': 84000,
    'sole:unexpected-line-before-first-heading': 83000, 'sole:unexpected-line-between-blocks': 110000,
    'sole:unexpected-line-in-changes': 130000, 'strict:accepted': 370000, 'strict:raised': 820000,
    'normalform:eof-block': 83000, 'normalform:rich-heading': 640000, 'op:new_block': 380000, 'op:add_change': 280000,
    'op:set': 220000, 'op:bset': 360000, 'hist:from-empty': 91000, 'hist:from-parsed': 210000, 'multi:texts': 200000,
    'multi:normalform-on-2+-blocks': 170000, 'multi:warned-and-2+-blocks': 120000,
    'multi:bad-trailer-accepted-in-non-last-block': 53000, 'multi:irregular-in-middle-block': 47000,
    'multi:family:own-trailer-one-space': 43000, 'multi:family:trailer-junk': 28000,
    'multi:family:heading-junk': 28000, 'multi:family:own-heading-variant': 28000, 'multi:family:between': 28000,
    'multi:family:in-changes': 14000, 'multi:family:layout': 14000, 'multi:family:slurp': 14000, 'op:badd': 100000,
    'op:seteach': 33000, 'op:fmt': 150000, 'op:fmt-block': 32000, 'op:edit-after-mid-format': 300000,
    'older:bset': 170000, 'older:badd': 70000, 'older:seteach': 29000, 'older:edit-after-mid-format': 120000,
    'older-attr:author': 17000, 'older-attr:date': 17000, 'older-attr:urgency': 17000,
    'older-attr:distributions': 17000, 'older-attr:package': 17000, 'older-attr:version': 54000,
    'older-attr:urgency_comment': 17000, 'older-attr:other_pairs': 16000, 'older-attr:changes': 70000,
    'handle:index': 78000, 'handle:neg': 55000, 'handle:iter': 56000, 'handle:list': 56000,
    'hist:final-format-after-mid-format-and-edit': 100000, 'hist:final-format-after-older-block-edit': 120000,
    # formatting look-alike class (%, {, }, backslash in reported / accepted lines and in argument values):
    # measured on the text of the warnings the live parser emitted; a run that never has the parser report
    # such a line is inconclusive
    'fmt:accepted-silently:backslash': 160000, 'fmt:accepted-silently:brace': 230000,
    'fmt:accepted-silently:percent': 250000, 'fmt:hist-arg:backslash': 100000, 'fmt:hist-arg:brace': 150000,
    'fmt:hist-arg:percent': 160000, 'fmt:hist-start:backslash': 99000, 'fmt:hist-start:brace': 130000,
    'fmt:hist-start:percent': 140000, 'fmt:normalform:backslash': 540000, 'fmt:normalform:brace': 780000,
    'fmt:normalform:percent': 830000, 'fmt:reported-on-2+-blocks': 61000, 'fmt:reported-token:%': 14000,
    'fmt:reported-token:%%': 24000, 'fmt:reported-token:%(x)s': 29000, 'fmt:reported-token:%d': 30000,
    'fmt:reported-token:%s': 54000, 'fmt:reported-token:100%': 34000, 'fmt:reported-token:backslash': 82000,
    'fmt:reported-token:{': 34000, 'fmt:reported-token:{0}': 54000, 'fmt:reported-token:}': 29000,
    'fmt:reported:bad-trailer:backslash': 11000, 'fmt:reported:bad-trailer:brace': 19000,
    'fmt:reported:bad-trailer:percent': 23000, 'fmt:reported:bad-urgency-value:backslash': 2400,
    'fmt:reported:bad-urgency-value:brace': 6200, 'fmt:reported:bad-urgency-value:percent': 7600,
    'fmt:reported:invalid-key-value:backslash': 2200, 'fmt:reported:invalid-key-value:brace': 5800,
    'fmt:reported:invalid-key-value:percent': 7200,
    'fmt:reported:unexpected-line-at-start-of-changes:backslash': 12000,
    'fmt:reported:unexpected-line-at-start-of-changes:brace': 31000,
    'fmt:reported:unexpected-line-at-start-of-changes:percent': 38000,
    'fmt:reported:unexpected-line-before-first-heading:backslash': 15000,
    'fmt:reported:unexpected-line-before-first-heading:brace': 31000,
    'fmt:reported:unexpected-line-before-first-heading:percent': 38000,
    'fmt:reported:unexpected-line-between-blocks:backslash': 25000,
    'fmt:reported:unexpected-line-between-blocks:brace': 48000,
    'fmt:reported:unexpected-line-between-blocks:percent': 58000,
    'fmt:reported:unexpected-line-in-changes:backslash': 14000,
    'fmt:reported:unexpected-line-in-changes:brace': 36000, 'fmt:reported:unexpected-line-in-changes:percent': 44000,
    'fmt:site-on-text-with-special:bad-trailer': 75000, 'fmt:site-on-text-with-special:bad-urgency-value': 29000,
    'fmt:site-on-text-with-special:eof-inside-block': 80000, 'fmt:site-on-text-with-special:invalid-key-value': 38000,
    'fmt:site-on-text-with-special:repeated-key': 31000,
    'fmt:site-on-text-with-special:unexpected-line-at-start-of-changes': 180000,
    'fmt:site-on-text-with-special:unexpected-line-before-first-heading': 160000,
    'fmt:site-on-text-with-special:unexpected-line-between-blocks': 200000,
    'fmt:site-on-text-with-special:unexpected-line-in-changes': 220000, 'fmt:strict-raised-on:backslash': 43000,
    'fmt:strict-raised-on:brace': 99000, 'fmt:strict-raised-on:percent': 120000,
    # Version-object class (a Version handed to new_block / the setters and mutated by the caller afterwards; a Version
    # read from the changelog and mutated): counted only when str(object) changed; a run that never does it is inconclusive
    'hist:final-format-after-version-object-mutation': 72000, 'vobj:edit-after-mutation': 110000,
    'vobj:format-after-mutation': 28000, 'vobj:format-checked-after-mutation:passed-to-new_block': 27000,
    'vobj:format-checked-after-mutation:passed-to-setter': 41000,
    'vobj:format-checked-after-mutation:read-from-changelog': 40000, 'vobj:handed-again-after-mutation': 5500,
    'vobj:handed:bset': 86000, 'vobj:handed:new_block': 72000, 'vobj:handed:set': 23000, 'vobj:handed:seteach': 12000,
    'vobj:mutated-after-mid-format': 39000, 'vobj:mutated-attr:debian_revision': 29000,
    'vobj:mutated-attr:debian_version': 28000, 'vobj:mutated-attr:epoch': 26000,
    'vobj:mutated-attr:full_version': 31000, 'vobj:mutated-attr:upstream_version': 31000,
    'vobj:mutated-kind:passed-to-new_block': 36000, 'vobj:mutated-kind:passed-to-setter': 55000,
    'vobj:mutated-kind:read-from-changelog': 54000, 'vobj:mutated-object-handed-to-several-blocks': 9100,
    'vobj:mutated-while-block-is:every-block': 4900, 'vobj:mutated-while-block-is:newest': 100000,
    'vobj:mutated-while-block-is:older': 40000, 'vobj:mutated:arg:bset': 40000, 'vobj:mutated:arg:new_block': 36000,
    'vobj:mutated:arg:set': 9800, 'vobj:mutated:arg:seteach': 4900, 'vobj:mutated:read:block': 18000,
    'vobj:mutated:read:cl.version': 9200, 'vobj:mutated:read:get_version': 9100,
    'vobj:mutated:read:get_versions': 9200, 'vobj:mutated:read:versions': 9100, 'vobj:read-from-older-block': 30000,
    'vobj:read-handle:index': 9500, 'vobj:read-handle:iter': 9400, 'vobj:read-handle:list': 9400,
    'vobj:read-handle:neg': 9500, 'vobj:read:block': 37000, 'vobj:read:cl.version': 18000,
    'vobj:read:get_version': 18000, 'vobj:read:get_versions': 18000, 'vobj:read:versions': 18000,
}
FLOORS = {
    'quick': {'nontrivial': 16000,
              'monitors': {'M.total': 27000, 'M.strict': 27000, 'M.normalform': 26000, 'M.history': 9800, 'M.history-mid': 3100,
                           'M.model': 34000, 'M.blockwise': 84000, 'M.vobject': 11000, 'M.vobject-format': 2800,
                           'P.state-line': 460000},
              'counters': _Q_COUNTERS},
    'thorough': {'nontrivial': 700000,
                 'monitors': {'M.total': 1200000, 'M.strict': 1200000, 'M.normalform': 1100000, 'M.history': 270000,
                              'M.history-mid': 120000, 'M.model': 1500000, 'M.blockwise': 3400000, 'M.vobject': 490000,
                              'M.vobject-format': 100000, 'P.state-line': 20000000},
                 'counters': _T_COUNTERS},
}

# irregular-blanks class (headings / trailers whose blanks between the items are runs of spaces / tabs): about half of
# the minimum over quick seeds 0-3 / thorough seed 0 on the unchanged tree.  ws:slot:* / ws:run:* / ws:position:* count
# what was generated and executed, ws:normalform:* what was judged; ws:accepted-silently:<slot> and ws:normalform:<slot>
# are floored only for the slots the unchanged tree accepts without a warning (before-semi, pkg-paren, urg-before-eq,
# pair-before-eq and mail-date spellings are reported by the parser and only have the generation floor); the counters
# ws:warned:*, ws:output-equals-input / -differs-from-input, ws:unformattable are the library's choice: never floored.
# A run that never exercises the class is inconclusive.
_WS_Q = {
    'ws:accepted-silently': 1900, 'ws:accepted-silently:after-comma': 36, 'ws:accepted-silently:after-dashes': 62,
    'ws:accepted-silently:after-semi': 51, 'ws:accepted-silently:before-comma': 37,
    'ws:accepted-silently:dist-dist': 63, 'ws:accepted-silently:dow-day': 35, 'ws:accepted-silently:h-trailing': 59,
    'ws:accepted-silently:in-comment': 36, 'ws:accepted-silently:in-date': 56, 'ws:accepted-silently:in-mail': 35,
    'ws:accepted-silently:in-name': 60, 'ws:accepted-silently:in-value': 37, 'ws:accepted-silently:name-mail': 69,
    'ws:accepted-silently:pair-after-eq': 37, 'ws:accepted-silently:paren-dist': 57,
    'ws:accepted-silently:t-trailing': 61, 'ws:accepted-silently:urg-after-eq': 57,
    'ws:accepted-silently:urg-comment': 33, 'ws:hist': 650, 'ws:hist:final-format': 610,
    'ws:hist:final-format-after-mid-format-and-edit': 420, 'ws:hist:final-format-after-older-block-edit': 310,
    'ws:normalform': 2500, 'ws:normalform-accepted-silently-run:2-spaces': 300,
    'ws:normalform-accepted-silently-run:3-spaces': 350, 'ws:normalform-accepted-silently-run:4-spaces': 300,
    'ws:normalform-accepted-silently-run:7-spaces': 280, 'ws:normalform-accepted-silently-run:mixed': 1100,
    'ws:normalform-accepted-silently-run:spaces': 540, 'ws:normalform-accepted-silently-run:tab': 190,
    'ws:normalform-accepted-silently-run:tabs': 220, 'ws:normalform-accepted-silently-run:unicode-blank': 240,
    'ws:normalform-on-2+-blocks': 1300, 'ws:normalform:after-comma': 310, 'ws:normalform:after-dashes': 140,
    'ws:normalform:after-semi': 350, 'ws:normalform:before-comma': 330, 'ws:normalform:dist-dist': 360,
    'ws:normalform:dow-day': 350, 'ws:normalform:h-trailing': 340, 'ws:normalform:in-comment': 310,
    'ws:normalform:in-date': 360, 'ws:normalform:in-mail': 330, 'ws:normalform:in-name': 370,
    'ws:normalform:in-value': 320, 'ws:normalform:name-mail': 370, 'ws:normalform:pair-after-eq': 330,
    'ws:normalform:paren-dist': 340, 'ws:normalform:t-trailing': 360, 'ws:normalform:urg-after-eq': 350,
    'ws:normalform:urg-comment': 330, 'ws:position:first-of-2': 170, 'ws:position:last-of-2': 170,
    'ws:position:middle-of-3': 170, 'ws:position:only': 510, 'ws:position:random-first': 1000,
    'ws:position:random-later': 320, 'ws:position:random-mutated': 150, 'ws:run:2-spaces': 420,
    'ws:run:3-spaces': 520, 'ws:run:4-spaces': 430, 'ws:run:7-spaces': 410, 'ws:run:mixed': 1600,
    'ws:run:spaces': 780, 'ws:run:tab': 300, 'ws:run:tabs': 360, 'ws:run:unicode-blank': 370,
    'ws:slot:after-comma': 320, 'ws:slot:after-dashes': 140, 'ws:slot:after-semi': 360, 'ws:slot:before-comma': 340,
    'ws:slot:before-semi': 120, 'ws:slot:dist-dist': 370, 'ws:slot:dow-day': 350, 'ws:slot:h-trailing': 350,
    'ws:slot:in-comment': 320, 'ws:slot:in-date': 360, 'ws:slot:in-mail': 340, 'ws:slot:in-name': 380,
    'ws:slot:in-value': 330, 'ws:slot:mail-date': 120, 'ws:slot:name-mail': 380, 'ws:slot:pair-after-eq': 340,
    'ws:slot:pair-before-eq': 100, 'ws:slot:paren-dist': 340, 'ws:slot:pkg-paren': 150, 'ws:slot:t-trailing': 370,
    'ws:slot:urg-after-eq': 350, 'ws:slot:urg-before-eq': 120, 'ws:slot:urg-comment': 340,
    'ws:strict-object-normalform': 1900, 'ws:texts': 2600,
}
_WS_T = {
    'ws:accepted-silently': 58000, 'ws:accepted-silently:after-comma': 930, 'ws:accepted-silently:after-dashes': 360,
    'ws:accepted-silently:after-semi': 1000, 'ws:accepted-silently:before-comma': 940,
    'ws:accepted-silently:dist-dist': 1000,
    'ws:accepted-silently:dow-day': 950, 'ws:accepted-silently:h-trailing': 990,
    'ws:accepted-silently:in-comment': 990, 'ws:accepted-silently:in-date': 1000, 'ws:accepted-silently:in-mail': 970,
    'ws:accepted-silently:in-name': 1000, 'ws:accepted-silently:in-value': 960,
    'ws:accepted-silently:name-mail': 880, 'ws:accepted-silently:pair-after-eq': 950,
    'ws:accepted-silently:paren-dist': 990,
    'ws:accepted-silently:t-trailing': 990, 'ws:accepted-silently:urg-after-eq': 1000,
    'ws:accepted-silently:urg-comment': 990, 'ws:hist': 12000, 'ws:hist:final-format': 12000,
    'ws:hist:final-format-after-mid-format-and-edit': 12000, 'ws:hist:final-format-after-older-block-edit': 7300,
    'ws:normalform': 78000, 'ws:normalform-accepted-silently-run:2-spaces': 12000,
    'ws:normalform-accepted-silently-run:3-spaces': 15000, 'ws:normalform-accepted-silently-run:4-spaces': 12000,
    'ws:normalform-accepted-silently-run:7-spaces': 11000, 'ws:normalform-accepted-silently-run:mixed': 40000,
    'ws:normalform-accepted-silently-run:spaces': 26000, 'ws:normalform-accepted-silently-run:tab': 7600,
    'ws:normalform-accepted-silently-run:tabs': 9800, 'ws:normalform-accepted-silently-run:unicode-blank': 12000,
    'ws:normalform-on-2+-blocks': 43000, 'ws:normalform:after-comma': 12000, 'ws:normalform:after-dashes': 4200,
    'ws:normalform:after-semi': 12000, 'ws:normalform:before-comma': 12000,
    'ws:normalform:dist-dist': 12000, 'ws:normalform:dow-day': 12000, 'ws:normalform:h-trailing': 12000,
    'ws:normalform:in-comment': 12000, 'ws:normalform:in-date': 12000, 'ws:normalform:in-mail': 12000,
    'ws:normalform:in-name': 12000, 'ws:normalform:in-value': 12000,
    'ws:normalform:name-mail': 12000, 'ws:normalform:pair-after-eq': 12000,
    'ws:normalform:paren-dist': 12000, 'ws:normalform:t-trailing': 12000, 'ws:normalform:urg-after-eq': 12000,
    'ws:normalform:urg-comment': 12000, 'ws:position:first-of-2': 510, 'ws:position:last-of-2': 510,
    'ws:position:middle-of-3': 510, 'ws:position:only': 510, 'ws:position:random-first': 55000,
    'ws:position:random-later': 16000, 'ws:position:random-mutated': 7800, 'ws:run:2-spaces': 18000,
    'ws:run:3-spaces': 23000, 'ws:run:4-spaces': 18000, 'ws:run:7-spaces': 17000, 'ws:run:mixed': 59000,
    'ws:run:spaces': 38000, 'ws:run:tab': 11000, 'ws:run:tabs': 15000, 'ws:run:unicode-blank': 19000,
    'ws:slot:after-comma': 12000, 'ws:slot:after-dashes': 4400, 'ws:slot:after-semi': 12000,
    'ws:slot:before-comma': 12000, 'ws:slot:before-semi': 4400, 'ws:slot:dist-dist': 12000, 'ws:slot:dow-day': 12000,
    'ws:slot:h-trailing': 12000, 'ws:slot:in-comment': 12000, 'ws:slot:in-date': 12000, 'ws:slot:in-mail': 12000,
    'ws:slot:in-name': 12000, 'ws:slot:in-value': 12000, 'ws:slot:mail-date': 4300, 'ws:slot:name-mail': 12000,
    'ws:slot:pair-after-eq': 12000, 'ws:slot:pair-before-eq': 4300, 'ws:slot:paren-dist': 12000,
    'ws:slot:pkg-paren': 4400, 'ws:slot:t-trailing': 12000, 'ws:slot:urg-after-eq': 12000,
    'ws:slot:urg-before-eq': 4500, 'ws:slot:urg-comment': 12000, 'ws:strict-object-normalform': 58000,
    'ws:texts': 82000,
}
_Q_COUNTERS.update(_WS_Q)
_T_COUNTERS.update(_WS_T)
FLOORS['quick']['monitors']['M.normalform-strict'] = 1900
FLOORS['thorough']['monitors']['M.normalform-strict'] = 58000

FIXTURES = ['test_changelog', 'test_changelog_unicode', 'test_strange_changelog', 'test_changelog_full_stops',
            'test_modify_changelog1', 'test_modify_changelog2', 'test_modify_changelog3']

# the nine places where parse_changelog reports a problem, by message prefix
WARN_SITES = [('Empty changelog file', 'empty-file'),
              ('Invalid key-value pair', 'invalid-key-value'),
              ('Repeated key-value', 'repeated-key'),
              ('Badly formatted urgency value', 'bad-urgency-value'),
              ('Unexpected line while looking for first heading', 'unexpected-line-before-first-heading'),
              ('Unexpected line while looking for next heading', 'unexpected-line-between-blocks'),
              ('Unexpected line while looking for start of change data', 'unexpected-line-at-start-of-changes'),
              ('Unexpected line while looking for more change data', 'unexpected-line-in-changes'),
              ('Unexpected line while looking for', 'unexpected-line-other-state'),
              ('Badly formatted trailer line', 'bad-trailer'),
              ('Found eof where expected', 'eof-inside-block')]

_STATE = {'probe': None, 'gate': False}

# a regular block that parses without any warning (urgency comment + extra pairs, whitespace-only and
# trailing-whitespace change lines); the enumerated cases put exactly one irregular line into it
ENUM_BASE = ['base-pkg (1.0-1) unstable; urgency=low (HIGH for users of diversions), binary-only=yes, closes=123',
             '', '  * change one', '    continuation  ', '  ', '  [ X ]', '  * change two', '',
             ' -- A B <a@b.c>  Mon, 1 Jan 2001 00:00:00 +0000', '']
ENUM_ASSIGN = [('package', 'newpkg'), ('version', '9:9.9-9'), ('distributions', 'stable testing'), ('urgency', 'HIGH'),
               ('urgency_comment', ' (security)'), ('other_pairs', {'XS-Foo': 'bar baz'}),
               ('author', 'New Author <n@a>'), ('date', 'Tue, 2 Jan 2001 01:02:03 +0100')]

# three pairwise different regular blocks (plain / rich / plain heading, three trailer spellings) for the enumerated
# multi-block texts and histories
ENUM_BLOCKS = [
    ['alpha (2.0-1) unstable; urgency=medium', '', '  * alpha change', '',
     ' -- Alpha One <one@a.b>  Wed, 3 Jan 2001 03:00:00 +0000', ''],
    ['beta (1:1.5~rc1-2) stable testing; urgency=low (HIGH for users of diversions), binary-only=yes', '',
     '  * beta change', '    continuation', '', ' -- Beta Two <two@b.c>  Tue, 2 Jan 2001 02:00:00 +0100', ''],
    ['gamma (0.9) experimental; urgency=high', '', '  [ G ]', '  * gamma change', '',
     ' -- Gamma Three <three@c.d>  1 Jan 2001 1:00:00 -0500', ''],
]
ENUM_POS = [(2, 0), (3, 0), (3, 1)]          # (number of blocks, index of the irregular block) - never the last
HANDLES = ['index', 'neg', 'iter', 'list']   # cl[i], cl[i - len(cl)], i-th element of iteration, list(cl)[i]
OLDER_ATTRS = ['author', 'date', 'urgency', 'distributions', 'package', 'version', 'urgency_comment', 'other_pairs']
ATTRS = ('package', 'version', 'distributions', 'urgency', 'urgency_comment', 'other_pairs', 'changes', 'author', 'date')

# mechanism: topline accepts a version containing ';' but the key=value list is cut at the FIRST ';' of the
# line (inside the version), so urgency / comment / extra pairs written by _format are not read back
SEMI_KEY = 'semicolon-in-version-misplaces-key-value-split'


def warn_site(message):
    for prefix, slug in WARN_SITES:
        if message.startswith(prefix):
            return slug
    return 'other-warning'


# ---------------------------------------------------------------------------
# reach probe

class GatedLocals(probes.LocalsProbe):
    """LocalsProbe that only materialises the frame locals while the gate is open
    (one parse per text is observed; the other parses of the same case run at
    nearly full speed)."""

    def _on_line(self, code, line):
        if line != self.lineno:
            return probes.mon.DISABLE
        if _STATE['gate']:
            self.cb(probes.sys._getframe(1).f_locals)
        return None


def setup(ctx):
    from debian import changelog as cl
    pairs = ctx.extra.setdefault('state_line_pairs', set())
    ctx.extra['state_probe'] = 'detached'
    try:
        fn = cl.Changelog.parse_changelog
        src, start = inspect.getsourcelines(fn)
        target = None
        seen_loop = False
        for i, l in enumerate(src):
            s = l.strip()
            if s.startswith('for line in'):
                seen_loop = True
            # first statement of the per-line dispatch: both `state` and the stripped `line` are bound
            if seen_loop and (s.startswith('if state in') or s.startswith('if state ==')):
                target = start + i
                break
        if target is None:
            return

        def cb(loc):
            st, ln = loc.get('state'), loc.get('line')
            if isinstance(st, str) and isinstance(ln, str):
                pairs.add('%s | %s' % (st, g.line_class(ln)))
                ctx.mon('P.state-line')

        p = GatedLocals(fn.__code__, target, cb)
        p.start()
        _STATE['probe'] = p
        ctx.extra['state_probe'] = 'attached at changelog.py:%d' % target
    except Exception as e:      # evidence only: an unattachable probe => inconclusive via conclusive()
        ctx.extra['state_probe'] = 'detached (%s)' % type(e).__name__


def finish(ctx):
    p = _STATE['probe']
    if p is not None:
        p.stop()
        _STATE['probe'] = None


def conclusive(tier, counters, monitor_evals, extra):
    n = len(extra.get('state_line_pairs', []))
    if n < MIN_PAIRS:
        return ('LINE probe on parse_changelog saw only %d distinct (parser state, line class) pairs, floor %d (%s)'
                % (n, MIN_PAIRS, extra.get('state_probe')))
    return None


# ---------------------------------------------------------------------------
# workload

def _fixture_blocks(ctx):
    """Fixture files split into blocks (heading line .. line before the next heading)."""
    import debian
    tdir = os.path.join(os.path.dirname(os.path.abspath(debian.__file__)), 'tests')
    out = []
    for name in FIXTURES:
        path = os.path.join(tdir, name)
        try:
            with open(path, encoding='utf-8') as f:
                lines = f.read().split('\n')
        except (OSError, UnicodeDecodeError):
            ctx.count('fixture-missing')
            continue
        if lines and lines[-1] == '':
            lines.pop()
        blocks, cur = [], []
        for l in lines:
            if l[:1] not in ('', ' ', '\t') and ';' in l and '(' in l and cur:
                blocks.append(cur)
                cur = []
            cur.append(l)
        if cur:
            blocks.append(cur)
        out.append((name, lines, blocks))
    return out


def cases(ctx):
    fixtures = _fixture_blocks(ctx)
    # 1. every fixture whole, unmutated (shard 0) and every junk line alone / first / last (enumerated)
    idx = 0
    for name, lines, _b in fixtures:
        if ctx.mine(idx):
            yield {'kind': 'text', 'text': '\n'.join(lines) + '\n', 'aea': [False, True], 'src': 'fixture:' + name}
        idx += 1
    base = list(ENUM_BASE)
    for cls in g.JUNK_CLASSES:
        for j in g.JUNK[cls]:
            for where in ('alone', 'first', 'after-heading', 'in-changes', 'last', 'last-twice', 'as-heading',
                          'as-second-heading', 'as-trailer'):
                if ctx.mine(idx):
                    if where == 'alone':
                        ls = [j]
                    elif where == 'as-heading':           # j is the only irregular line of an otherwise regular block
                        ls = [j] + base[1:]
                    elif where == 'as-second-heading':
                        ls = base + [j] + base[1:]
                    elif where == 'as-trailer':
                        ls = base[:-2] + [j, ''] + base
                    elif where == 'first':
                        ls = [j] + base
                    elif where == 'after-heading':
                        ls = base[:1] + [j] + base[1:]
                    elif where == 'in-changes':
                        ls = base[:3] + [j] + base[3:]
                    elif where == 'last':
                        ls = base + [j]
                    else:
                        ls = base + [j, j] + base
                    yield {'kind': 'text', 'text': '\n'.join(ls) + '\n', 'aea': [False, True], 'src': 'enum:' + cls}
                idx += 1
    for t in ['', '\n', ' \n\t\n', '\n\n\n', 'x', ' \n']:
        if ctx.mine(idx):
            yield {'kind': 'text', 'text': t, 'aea': [False, True], 'src': 'enum:empty'}
        idx += 1

    # 1b. enumerated single edits on blocks with one irregular line: (irregular heading | irregular trailer |
    #     text ending inside the block) x (every attribute assignment, add_change, new_block)
    edits = [[['bset', 0, a, v]] for a, v in ENUM_ASSIGN]
    edits.append([['bset', 0, 'author', 'New Author <n@a>'], ['bset', 0, 'date', 'Tue, 2 Jan 2001 01:02:03 +0100']])
    edits.append([['add_change', '  * added']])
    edits.append([['new_block', {'package': 'n', 'version': '2', 'distributions': 'unstable', 'urgency': 'low',
                                 'changes': ['', '  * new', ''], 'author': 'N <n@a>',
                                 'date': 'Tue, 2 Jan 2001 01:02:03 +0100'}]])
    starts = []
    for cls in g.JUNK_CLASSES:
        for j in g.JUNK[cls]:
            if cls.startswith('heading') or cls.startswith('old3'):
                starts.append([j] + base[1:])
                starts.append(base + [j] + base[1:])
            if cls.startswith('trailer') or cls == 'bare-trailer':
                starts.append(base[:-2] + [j, ''])
                starts.append(base[:-2] + [j, ''] + base)
    for k in range(1, len(base) - 1):
        starts.append(base[:k])
        starts.append(base + base[:k])
    for ls in starts:
        for ops in edits:
            for aea in (False, True):
                if ctx.mine(idx):
                    yield {'kind': 'hist', 'start': '\n'.join(ls) + '\n', 'aea': aea, 'ops': ops, 'src': 'enum'}
                idx += 1

    # 1c. enumerated multi-block texts: every irregular heading / trailer spelling in a NON-last block of
    #     2 or 3 pairwise different regular blocks (plain and rich headings, three trailer spellings)
    for n, k in ENUM_POS:
        reps = []
        own = g.one_space_trailer(ENUM_BLOCKS[k][g.trailer_index(ENUM_BLOCKS[k])])
        reps.append(('trailer', own, 'own-trailer-one-space'))
        reps.append(('trailer', own + '  ', 'own-trailer-one-space'))
        for cls in g.TRAILER_FAMILY:
            reps += [('trailer', j, 'trailer-junk') for j in g.JUNK[cls]]
        for cls in g.HEADING_FAMILY:
            reps += [('heading', j, 'heading-junk') for j in g.JUNK[cls]]
        for cls in g.BETWEEN_FAMILY + g.SLURP_FAMILY:
            reps += [('between', j, 'between') for j in g.JUNK[cls][:2]]
        for what, j, fam in reps:
            if ctx.mine(idx):
                yield {'kind': 'text', 'text': '\n'.join(_enum_multi(n, k, what, j)) + '\n', 'aea': [False, True],
                       'src': 'multi-enum', 'irr': {'n': n, 'k': k, 'family': fam}}
            idx += 1

    # 1d. enumerated histories on those texts: (irregular construct in block k) x (target block k, a neighbour, the
    #     oldest) x (every attribute assignment, author+date, add_change on that block) x (edit | format, edit |
    #     edit, format, edit) with the block reached through cl[i], cl[i-len], iteration and list(cl)[i] in turn
    hvals = ENUM_ASSIGN + [('changes+', '  * added to an older block')]
    hn = 0
    for n, k in ENUM_POS:
        own = g.one_space_trailer(ENUM_BLOCKS[k][g.trailer_index(ENUM_BLOCKS[k])])
        for what, j, aea in [('trailer', own, False), ('trailer', g.JUNK['trailer-one-space'][1], False),
                             ('trailer', ' --', True), ('heading', 'pkg (1.0) unstable; urgency=low, urgency=high', False),
                             ('heading', 'pkg (1.0) unstable;', False), ('heading', 'pkg (1.0) unstable; urgency=low!', False),
                             ('none', None, False)]:
            start = '\n'.join(_enum_multi(n, k, what, j)) + '\n'
            for t in sorted(set([k, min(k + 1, n - 1), n - 1, 1])):
                for a, v in hvals:
                    for pattern in ('e', 'fe', 'efe', 'bfe'):
                        if ctx.mine(idx):
                            how = HANDLES[(hn // 4) % len(HANDLES)]
                            e1 = ['badd', t, v, how] if a == 'changes+' else ['bset', t, a, v, how]
                            e2 = ['bset', t, 'date', 'Thu, 4 Jan 2001 04:05:06 -0700', how]
                            ops = {'e': [e1], 'fe': [['fmt'], e1], 'efe': [e1, ['fmt'], e2],
                                   'bfe': [['fmt', 'block', t], e1, ['fmt'], e2]}[pattern]
                            yield {'kind': 'hist', 'start': start, 'aea': aea, 'ops': ops, 'src': 'multi-enum'}
                        idx += 1
                        hn += 1

    # 1e. enumerated Version-object matrix: (empty + new_block | one block | three blocks) x (every way a Version object
    #     is handed to / read from the changelog, every block) x (seven mutations of that object) x (what follows)
    for case in _enum_vobj():
        if ctx.mine(idx):
            yield case
        idx += 1

    # 1f. enumerated irregular-blanks class: every slot x every run on the two fixed blocks, placed as the only block,
    #     first of two, last of two, middle of three regular blocks; histories on the 3-space / space-tab-space spellings
    wn = 0
    for slots, run, bi, gaps in g.ws_enumerated():
        ls = g.ws_block(g.WS_BASES[bi], gaps)
        places = WS_PLACES if not ctx.quick else ['only', WS_PLACES[1 + wn % 3]]
        for place in places:
            if ctx.mine(idx):
                yield {'kind': 'text', 'text': '\n'.join(_ws_place(ls, place)) + '\n', 'aea': [False, True],
                       'src': 'ws-enum', 'ws': {'slots': slots, 'runs': [g.ws_run_class(run)], 'pos': place}}
            idx += 1
        if len(slots) == 1 and run in ('   ', ' \t '):
            for en, ops in enumerate(edits):
                place = 'only' if (wn + en) % 2 == 0 else 'middle-of-3'
                t = 0 if place == 'only' else 1
                how = HANDLES[(wn + en) % 4]
                ops = [(['bset', t] + o[2:] + [how]) if o[0] == 'bset' else (['badd', t, o[1], how] if o[0] == 'add_change' else o)
                       for o in ops]
                if (wn + en) % 4 >= 2:
                    ops = [['fmt']] + ops
                if ctx.mine(idx):
                    yield {'kind': 'hist', 'start': '\n'.join(_ws_place(ls, place)) + '\n', 'aea': False, 'ops': ops,
                           'src': 'ws-enum'}
                idx += 1
        wn += 1

    # 2. random mutated texts
    r = ctx.rng('texts')
    for i in range(ctx.size(TEXTS['quick'], TEXTS['thorough'])):
        if fixtures and r.random() < 0.2:
            name, _l, blocks = r.choice(fixtures)
            k = r.randrange(len(blocks))
            lines = [l for b in blocks[k:k + r.randint(1, 3)] for l in b]
            src = 'fixture:' + name
        else:
            lines = g.wellformed(r)
            src = 'gen'
        lines, ops = g.mutate(r, lines, r.choice([0, 1, 1, 2, 2, 3, 4]))
        text = '\n'.join(lines) + ('\n' if lines and r.random() < 0.93 else '')
        yield {'kind': 'text', 'text': text, 'aea': [False, True], 'src': src, 'muts': ops}

    # 2b. random multi-block texts with an irregular-but-accepted construct in a non-last block
    r = ctx.rng('mtexts')
    for i in range(ctx.size(MTEXTS['quick'], MTEXTS['thorough'])):
        lines, info = g.multi_irregular(r, _fixture_run(r, fixtures) if r.random() < 0.2 else None)
        text = '\n'.join(lines) + ('\n' if r.random() < 0.95 else '')
        yield {'kind': 'text', 'text': text, 'aea': [False, True], 'src': 'multi', 'irr': info}

    # 2c. random texts of the irregular-blanks class
    r = ctx.rng('wtexts')
    for i in range(ctx.size(WTEXTS['quick'], WTEXTS['thorough'])):
        lines, info = g.ws_text(r)
        muts = []
        if r.random() < 0.1:
            lines, muts = g.mutate(r, lines, 1)
        text = '\n'.join(lines) + ('\n' if r.random() < 0.95 else '')
        yield {'kind': 'text', 'text': text, 'aea': [False, True], 'src': 'ws', 'muts': muts,
               'ws': {'slots': info['slots'], 'runs': info['runs'],
                      'pos': 'random-mutated' if muts else 'random-first' if info['k'] == 0 else 'random-later'}}

    # 3. editing histories
    r = ctx.rng('hists')
    for i in range(ctx.size(HISTS['quick'], HISTS['thorough'])):
        yield gen_history(r, fixtures)

    # 3b. histories on changelogs with >= 2 blocks: edits of older blocks through the public handles,
    #     formatting in the middle of the history
    r = ctx.rng('mhists')
    for i in range(ctx.size(MHISTS['quick'], MHISTS['thorough'])):
        yield gen_history_multi(r, fixtures)

    # 3c. histories in which Version OBJECTS cross the API: handed to new_block / the version setters and mutated by
    #     the caller afterwards; read from the changelog and mutated
    r = ctx.rng('vhists')
    for i in range(ctx.size(VHISTS['quick'], VHISTS['thorough'])):
        yield gen_history_vobj(r, fixtures)

    # 3d. histories that start from a random text of the irregular-blanks class (regular argument values)
    r = ctx.rng('whists')
    for i in range(ctx.size(WHISTS['quick'], WHISTS['thorough'])):
        lines, _info = g.ws_text(r)
        case = gen_history_multi(r, fixtures, start_lines=lines)
        case['src'] = 'ws'
        yield case


# Version-object class -------------------------------------------------------
# op encodings (all JSON): a version VALUE may be a str, {'__version__': s} (fresh Version(s), not kept),
# {'__version__': s, 'keep': 1} (fresh Version(s), handed over and KEPT by the caller) or {'__held__': k} (the k-th kept
# object, k modulo the number of kept objects, -1 = the most recent one, handed over again as it is now);
# ['vread', src, i, handle] keeps a Version object read from the changelog; ['vmut', k, attribute, value] assigns to an
# attribute of the k-th kept object.
VATTRS = ['upstream_version', 'debian_revision', 'debian_version', 'epoch', 'full_version']
VMUT_VALUES = {'upstream_version': ['9.9', '7~vp', '0', '3.1+z'], 'debian_revision': ['9', '0vp1', None, '7~bpo1'],
               'debian_version': ['8', None, '0vp2'], 'epoch': ['7', '0', None, '12'],
               'full_version': ['9:8.7-6', '5', '4.4-4', '0~vp']}
VREAD_SRCS = ['cl.version', 'get_version', 'block', 'block', 'versions', 'get_versions']
ENUM_VMUTS = [('upstream_version', '9.9'), ('debian_revision', '77'), ('debian_revision', None), ('debian_version', '0vp1'),
              ('epoch', '5'), ('epoch', None), ('full_version', '8:7.6-5')]
ENUM_V = '1:2.5~rc1-3'      # epoch, upstream and revision present: every enumerated mutation changes the object


def _enum_vobj():
    full = {'package': 'n', 'distributions': 'unstable', 'urgency': 'low', 'changes': ['', '  * new', ''],
            'author': 'N <n@a>', 'date': 'Tue, 2 Jan 2001 01:02:03 +0100'}
    kept = {'__version__': ENUM_V, 'keep': 1}
    starts = [(None, [['new_block', dict(full, version='0.1-1')]], 1),
              ('\n'.join(ENUM_BASE) + '\n', [], 1),
              ('\n'.join(l for b in ENUM_BLOCKS for l in b) + '\n', [], 3)]
    hn = 0
    for start, prefix, n in starts:
        paths = [[['new_block', dict(full, version=dict(kept))]], [['set', 'version', dict(kept)]],
                 [['set', 'version', dict(kept), 'method']], [['seteach', 'version', dict(kept)]],
                 [['vread', 'cl.version']], [['vread', 'get_version']]]
        for i in range(n):
            paths.append([['bset', i, 'version', dict(kept), HANDLES[(hn + i) % 4]]])
            paths.append([['vread', 'block', i, HANDLES[(hn + i + 1) % 4]]])
            paths.append([['vread', 'versions', i]])
            paths.append([['vread', 'get_versions', i]])
        for path in paths:
            for a, v in ENUM_VMUTS:
                a2, v2 = ENUM_VMUTS[(hn + 3) % len(ENUM_VMUTS)]
                m, m2 = ['vmut', -1, a, v], ['vmut', -1, a2, v2]
                e = ['bset', min(1, n - 1), 'urgency', 'HIGH', HANDLES[hn % 4]]
                for tail in ([m], [m, ['fmt']], [['fmt'], m], [m, e, ['fmt']], [m, m2]):
                    yield {'kind': 'hist', 'start': start, 'aea': False, 'ops': prefix + path + tail, 'src': 'vobj-enum'}
                hn += 1


def _vmut(r, k=None):
    attr = r.choice(VATTRS)
    return ['vmut', r.choice([-1, -1, r.randrange(6)]) if k is None else k, attr, r.choice(VMUT_VALUES[attr])]


def gen_history_vobj(r, fixtures):
    """A history in which Version objects are handed to the changelog and mutated by the caller afterwards, and
    Version objects read from the changelog are mutated; ordinary edits, new_block calls and formats in between."""
    start, aea, ops = None, False, []
    keep = lambda: {'__version__': g.ver(r), 'keep': 1}
    k = r.random()
    if k < 0.22:
        for _ in range(r.choice([1, 1, 2, 3])):
            kw = _new_block_kwargs(r, subset=False)
            kw['version'] = keep() if r.random() < 0.7 else g.ver(r)
            ops.append(['new_block', kw])
    elif k < 0.55:
        start = '\n'.join(g.wellformed(r, nblocks=r.choice([1, 2, 2, 3]))) + '\n'
    elif k < 0.70 and _fixture_run(r, fixtures, 1, 3) is not None:
        start = '\n'.join(l for b in _fixture_run(r, fixtures, 1, 3) for l in b) + '\n'
    elif k < 0.85:
        lines, _info = g.multi_irregular(r)
        start = '\n'.join(lines) + '\n'
        aea = r.random() < 0.4
    else:
        lines, _ops = g.mutate(r, g.wellformed(r, nblocks=r.choice([1, 2, 3])), r.randint(1, 2))
        start = '\n'.join(lines) + '\n'
        aea = r.random() < 0.4
    body = []
    holds = sum(1 for o in ops if isinstance(o[1].get('version'), dict))
    for _ in range(r.randint(4, 10)):
        kind = r.choice(['hand_new', 'hand_new', 'hand_set', 'hand_bset', 'hand_bset', 'hand_bset', 'hand_each', 'reuse',
                         'reuse', 'vread', 'vread', 'vread', 'vread', 'vread', 'vmut', 'vmut', 'vmut', 'vmut', 'vmut',
                         'vmut', 'fmt', 'fmt', 'edit', 'edit', 'edit'])
        if holds == 0 and kind in ('vmut', 'reuse'):
            kind = r.choice(['vread', 'hand_bset', 'hand_new'])
        if kind == 'hand_each' and r.random() < 0.5:
            kind = 'hand_bset'
        i, how = r.choice([0, 0, 1, 1, 2, 3]), r.choice(HANDLES)
        if kind in ('hand_new', 'hand_set', 'hand_bset', 'hand_each', 'reuse'):
            val = keep() if kind != 'reuse' else {'__held__': r.choice([-1, -1, r.randrange(6)])}
            form = kind if kind != 'reuse' else r.choice(['hand_new', 'hand_set', 'hand_bset', 'hand_bset', 'hand_each'])
            if form == 'hand_new':
                kw = _new_block_kwargs(r, subset=False)
                kw['version'] = val
                body.append(['new_block', kw])
            elif form == 'hand_set':
                body.append(['set', 'version', val] + (['method'] if r.random() < 0.4 else []))
            elif form == 'hand_bset':
                body.append(['bset', i, 'version', val, how])
            else:
                body.append(['seteach', 'version', val])
            holds += kind != 'reuse'
        elif kind == 'vread':
            body.append(['vread', r.choice(VREAD_SRCS), i, how])
            holds += 1
        elif kind == 'vmut':
            m = _vmut(r)
            body.append(m)
            if r.random() < 0.35:
                body.append(_vmut(r, m[1]))
        elif kind == 'fmt':
            body.append(['fmt'] if r.random() < 0.8 else ['fmt', 'block', i])
        else:
            e = r.random()
            if e < 0.45:
                attr = r.choice(OLDER_ATTRS)
                body.append(['bset', i, attr, _assign_value(r, attr), how])
            elif e < 0.65:
                body.append(['badd', i, g.change(r).rstrip(), how])
            elif e < 0.8:
                attr = r.choice(['version', 'package', 'distributions', 'urgency', 'author', 'date'])
                body.append(['set', attr, _assign_value(r, attr)])
            elif e < 0.9:
                body.append(['add_change', g.change(r).rstrip()])
            else:
                body.append(['new_block', _new_block_kwargs(r, subset=False)])
    # at least one mutation of an object that was handed over / read before it
    first_hold = next((n for n, o in enumerate(ops + body) if _holds(o)), None)
    if first_hold is None:
        body.append(['vread', r.choice(VREAD_SRCS), r.choice([0, 1]), r.choice(HANDLES)])
        first_hold = len(ops + body) - 1
    if not any(o[0] == 'vmut' for o in (ops + body)[first_hold + 1:]):
        body.append(_vmut(r, -1))
    if r.random() < 0.5:           # something ordinary happens after the last mutation
        attr = r.choice(['urgency', 'distributions', 'author', 'date', 'package'])
        body.append(r.choice([['fmt'], ['bset', r.choice([0, 1]), attr, _assign_value(r, attr), r.choice(HANDLES)],
                              ['add_change', g.change(r).rstrip()]]))
    return {'kind': 'hist', 'start': start, 'aea': aea, 'ops': ops + body, 'src': 'vobj'}


def _holds(op):
    """True when the op (statically) leaves a Version object in the caller's hands."""
    if op[0] == 'vread':
        return True
    val = op[1].get('version') if op[0] == 'new_block' else (op[3] if op[0] == 'bset' else op[2] if op[0] in ('set', 'seteach') else None)
    return isinstance(val, dict) and bool(val.get('keep'))


WS_PLACES = ['only', 'first-of-2', 'last-of-2', 'middle-of-3']


def _ws_place(ls, place):
    """The block `ls` alone or among the fixed regular blocks."""
    if place == 'first-of-2':
        return ls + ENUM_BLOCKS[1]
    if place == 'last-of-2':
        return ENUM_BLOCKS[0] + ls
    if place == 'middle-of-3':
        return ENUM_BLOCKS[0] + ls + ENUM_BLOCKS[2]
    return list(ls)


def _fixture_run(r, fixtures, lo=2, hi=4):
    """lo..hi consecutive blocks of one fixture (None when no fixture has that many)."""
    cands = [blocks for _n, _l, blocks in fixtures if len(blocks) >= lo]
    if not cands:
        return None
    blocks = r.choice(cands)
    n = r.randint(lo, min(hi, len(blocks)))
    j = r.randrange(len(blocks) - n + 1)
    return [list(b) for b in blocks[j:j + n]]


def _enum_multi(n, k, what, j):
    """ENUM_BLOCKS[:n] with the heading / trailer of block k replaced by j, or j put after block k's trailer."""
    out = []
    for i in range(n):
        b = list(ENUM_BLOCKS[i])
        if i == k and what == 'heading':
            b[0] = j
        elif i == k and what == 'trailer':
            b[g.trailer_index(b)] = j
        elif i == k and what == 'between':
            b.insert(g.trailer_index(b) + 1, j)
        out += b
    return out


def _assign_value(r, attr):
    if attr == 'urgency_comment':
        return g.arg_urgency_comment(r)
    if attr == 'other_pairs':
        return g.arg_other_pairs(r)
    return {'version': g.ver, 'package': g.pkg, 'distributions': g.dist, 'urgency': g.urgency,
            'author': g.author, 'date': g.date}[attr](r)


def gen_history_multi(r, fixtures, start_lines=None):
    """A history on a changelog that has (or first builds) >= 2 blocks; most edits address an older block through
    one of the public handles, and at least one format happens before the last edit.  start_lines: use this text."""
    start, aea, ops = None, False, []
    k = r.random() if start_lines is None else None
    if k is None:
        start = '\n'.join(start_lines) + '\n'
    elif k < 0.28:
        start = '\n'.join(g.wellformed(r, nblocks=r.choice([2, 2, 3, 4]))) + '\n'
    elif k < 0.38 and _fixture_run(r, fixtures) is not None:
        start = '\n'.join(l for b in _fixture_run(r, fixtures) for l in b) + '\n'
    elif k < 0.65:
        lines, _info = g.multi_irregular(r)
        start = '\n'.join(lines) + '\n'
        aea = r.random() < 0.4
    elif k < 0.80:
        lines, _ops = g.mutate(r, g.wellformed(r, nblocks=r.choice([2, 3])), r.randint(1, 2))
        start = '\n'.join(lines) + '\n'
        aea = r.random() < 0.4
    else:                                   # built by several new_block calls (all arguments given)
        for _ in range(r.randint(2, 4)):
            kw = _new_block_kwargs(r, subset=False)
            ops.append(['new_block', kw])
    body = []
    for _ in range(r.randint(3, 9)):
        kind = r.choice(['bset', 'bset', 'bset', 'bset', 'badd', 'badd', 'badd', 'fmt', 'fmt', 'fmt', 'set',
                         'add_change', 'new_block', 'seteach'])
        if kind == 'seteach' and r.random() < 0.5:
            kind = 'bset'
        i = r.choice([0, 1, 1, 1, 2, 2, 3])
        how = r.choice(HANDLES)
        if kind == 'bset':
            attr = r.choice(OLDER_ATTRS)
            body.append(['bset', i, attr, _assign_value(r, attr), how])
        elif kind == 'badd':
            body.append(['badd', i, r.choice([g.change(r).rstrip(), g.change(r).rstrip(), g.change(r).rstrip(), '', '  ']), how])
        elif kind == 'fmt':
            body.append(['fmt'] if r.random() < 0.75 else ['fmt', 'block', i])
        elif kind == 'set':
            attr = r.choice(['version', 'package', 'distributions', 'urgency', 'author', 'date'])
            body.append(['set', attr, _assign_value(r, attr)])
        elif kind == 'add_change':
            body.append(['add_change', g.change(r).rstrip()])
        elif kind == 'new_block':
            body.append(['new_block', _new_block_kwargs(r, subset=False)])
        else:
            attr = r.choice(['urgency', 'distributions', 'author', 'date', 'urgency_comment', 'other_pairs', 'package'])
            body.append(['seteach', attr, _assign_value(r, attr)])
    # at least one whole-changelog format that is followed by an edit
    edits = [n for n, o in enumerate(body) if o[0] != 'fmt']
    if not any(o == ['fmt'] and any(e > n for e in edits) for n, o in enumerate(body)):
        body.insert(r.randint(0, edits[-1]) if edits else 0, ['fmt'])
        if not edits:
            attr = r.choice(OLDER_ATTRS)
            body.append(['bset', 1, attr, _assign_value(r, attr), r.choice(HANDLES)])
    return {'kind': 'hist', 'start': start, 'aea': aea, 'ops': ops + body, 'src': 'multi'}


def _new_block_kwargs(r, subset=True):
    kw = {'package': g.pkg(r), 'version': g.ver(r), 'distributions': g.dist(r), 'urgency': g.urgency(r),
          'author': g.author(r), 'date': g.date(r)}
    if r.random() < 0.2:
        kw['version'] = {'__version__': kw['version']}
    if r.random() < 0.6:
        kw['changes'] = g.arg_changes(r)
    if r.random() < 0.3:
        kw['urgency_comment'] = g.arg_urgency_comment(r)
    if r.random() < 0.3:
        kw['other_pairs'] = g.arg_other_pairs(r)
    k = r.random() if subset else 1.0
    if k < 0.15:                    # random subset of the arguments
        for name in r.sample(sorted(kw), r.randint(1, 3)):
            kw.pop(name)
    return kw


def gen_history(r, fixtures):
    start, aea = None, False
    k = r.random()
    if k < 0.35:
        start = '\n'.join(g.wellformed(r)) + '\n'
    elif k < 0.45 and fixtures:
        name, _l, blocks = r.choice(fixtures)
        j = r.randrange(len(blocks))
        start = '\n'.join(l for b in blocks[j:j + r.randint(1, 2)] for l in b) + '\n'
    elif k < 0.60:
        lines, _ops = g.mutate(r, g.wellformed(r), r.randint(1, 3))
        start = '\n'.join(lines) + '\n'
        aea = r.random() < 0.4
    ops = []
    nblocks_known = 0 if start is None else None     # None: unknown (parsed) - ops are guarded at run time
    for _ in range(r.randint(1, 8)):
        kind = r.choice(['new_block', 'new_block', 'add_change', 'add_change', 'add_change', 'set', 'set', 'bset'])
        if nblocks_known == 0:
            kind = 'new_block'
        if kind == 'new_block':
            ops.append(['new_block', _new_block_kwargs(r)])
            if nblocks_known is not None:
                nblocks_known += 1
        elif kind == 'add_change':
            ops.append(['add_change', r.choice([g.change(r).rstrip(), g.change(r).rstrip(), '', '  '])])
        else:
            attr = r.choice(['version', 'package', 'distributions', 'urgency', 'author', 'date'])
            val = {'version': g.ver, 'package': g.pkg, 'distributions': g.dist, 'urgency': g.urgency,
                   'author': g.author, 'date': g.date}[attr](r)
            if kind == 'set':
                ops.append(['set', attr, val])
            else:
                if r.random() < 0.3:
                    attr = r.choice(['urgency_comment', 'other_pairs'])
                    val = g.arg_urgency_comment(r) if attr == 'urgency_comment' else g.arg_other_pairs(r)
                ops.append(['bset', r.randint(0, 2), attr, val])
    return {'kind': 'hist', 'start': start, 'aea': aea, 'ops': ops}


# ---------------------------------------------------------------------------
# oracle helpers

def _version_of(b):
    """Public `version` where the raw string is a valid Version, else the raw string."""
    try:
        v = b.version
        return None if v is None else str(v)
    except Exception:
        return 'raw:%r' % (getattr(b, '_raw_version', '<unreadable>'),)


def sig7(b):
    return {'package': b.package, 'version': _version_of(b), 'distributions': b.distributions,
            'urgency': b.urgency, 'changes': list(b.changes()), 'author': b.author, 'date': b.date}


def sig_extra(b):
    return {'urgency_comment': b.urgency_comment, 'other_pairs': dict(b.other_pairs)}


def _parse(text, aea, strict=False):
    from debian import changelog as cl
    with warnings.catch_warnings(record=True) as w:
        warnings.simplefilter('always')
        c = cl.Changelog(text, allow_empty_author=aea, strict=strict)
    return c, [str(x.message) for x in w]


class _Suffixed(object):
    """ctx whose violation keys get a suffix (everything else is the real ctx)."""

    def __init__(self, ctx, suffix):
        self._ctx, self._suffix = ctx, suffix

    def __getattr__(self, name):
        return getattr(self._ctx, name)

    def violation(self, key, msg, case=None):
        self._ctx.violation(key + self._suffix, msg, case)


def normal_form(ctx, c, aea, small, mon, eof_hint=False, expect=None, suffix='', strict=False):
    """c: a live Changelog.  Returns True when the check was evaluated.
    expect: optional history model (list of snap() dicts) the re-parsed blocks must equal as well.
    strict: c was parsed with strict=True - its output is re-parsed the same way (leniently when that raises
    ChangelogParseError: the statement does not say the output of a strictly accepted text is strictly acceptable)."""
    from debian import changelog as cl
    if suffix:
        ctx = _Suffixed(ctx, suffix)
    try:
        s = str(c)
    except cl.ChangelogCreateError:
        ctx.count('unformattable')
        return False
    except Exception as e:
        ctx.violation('format-raises-other-than-create-error/%s' % type(e).__name__, repr(e), small)
        return False
    ctx.mon(mon)
    try:
        c2 = None
        if strict:
            try:
                c2, w2 = _parse(s, aea, strict=True)
            except cl.ChangelogParseError:
                ctx.count('reparse-strict-refused-output-of-strictly-accepted-text')
        if c2 is None:
            c2, w2 = _parse(s, aea)
    except Exception as e:
        ctx.violation('reparse-of-output-raises/%s' % type(e).__name__, '%r on output %r' % (e, s), small)
        return True
    if w2:
        ctx.count('reparse-warned')
    b1, b2 = list(c), list(c2)
    if len(b1) != len(b2):
        ctx.violation('reparse-block-count-differs', '%d blocks formatted, %d blocks parsed back from %r'
                      % (len(b1), len(b2), s), small)
        return True
    for n, (x, y) in enumerate(zip(b1, b2)):
        sx, sy = sig7(x), sig7(y)
        if sx != sy:
            diff = [k for k in sorted(sx) if sx[k] != sy[k]]
            attr = diff[0]
            key = 'reparse-blocks-differ/%s' % attr
            if (set(diff) <= {'author', 'date'} and all(sy[k] is None for k in diff)
                    and eof_hint and n == len(b1) - 1):
                # mechanism: the last block was parsed from a text that ended inside it (lenient parse warned
                # "Found eof where expected ..."); author/date assigned afterwards are never written by _format
                key = 'author-date-assigned-to-eof-truncated-block-not-formatted'
            elif diff == ['urgency'] and ';' in (sx['version'] or ''):
                key = SEMI_KEY
            ctx.violation(key, 'block %d %s: formatted from %r, parsed back %r; output %r'
                          % (n, attr, sx[attr], sy[attr], s), small)
            return True
    for n, (x, y) in enumerate(zip(b1, b2)):
        sx, sy = sig_extra(x), sig_extra(y)
        if sx != sy:
            attr = [k for k in sorted(sx) if sx[k] != sy[k]][0]
            key = 'reparse-heading-extras-differ/%s' % attr
            if ';' in (_version_of(x) or ''):
                key = SEMI_KEY
            ctx.violation(key, 'block %d %s: formatted from %r, parsed back %r; output %r'
                          % (n, attr, sx[attr], sy[attr], s), small)
            return True
    if expect is not None:
        for n, y in enumerate(b2):
            sy = snap(y)
            if sy != expect[n]:
                attr = [k for k in ATTRS if sy[k] != expect[n][k]][0]
                ctx.violation('reparse-differs-from-history-model/%s' % attr,
                              'block %d %s: the history leaves %r, parsed back %r; output %r'
                              % (n, attr, expect[n][attr], sy[attr], s), small)
                return True
    try:
        s2 = str(c2)
    except Exception as e:
        ctx.violation('reparsed-output-cannot-be-formatted', '%r; output %r' % (e, s), small)
        return True
    # block by block: the text of block n before and after the re-parse
    ctx.mon('M.blockwise', len(b1))
    where = None
    try:
        for n, (x, y) in enumerate(zip(b1, b2)):
            fx, fy = str(x), str(y)
            if fx != fy:
                where = (n, fx, fy)
                break
    except Exception as e:
        ctx.violation('block-cannot-be-formatted-although-changelog-can/%s' % type(e).__name__,
                      '%r; output %r' % (e, s), small)
        return True
    if s2 != s:
        ctx.violation('output-not-a-fixpoint', 'str(c)=%r but str(Changelog(str(c)))=%r%s'
                      % (s, s2, '' if where is None else '; first differing block %d of %d: %r -> %r'
                         % (where[0], len(b1), where[1], where[2])), small)
    elif where is not None:
        ctx.violation('block-output-not-a-fixpoint', 'whole text is a fixpoint %r but block %d of %d formats as %r '
                      'before and %r after the re-parse' % (s, where[0], len(b1), where[1], where[2]), small)
    return True


def check_text(ctx, text, aea, info=None, ws=None):
    """ws: not None for texts of the irregular-blanks class (the dict is carried into the witness so that a replay runs
    the additional checks of that class)."""
    from debian import changelog as cl
    small = {'kind': 'text', 'text': text, 'aea': [aea]}
    if ws is not None:
        small['ws'] = ws
    # --- totality of the lenient constructor (the one observed parse of this text)
    _STATE['gate'] = True
    try:
        c, w = _parse(text, aea)
    except Exception as e:
        ctx.violation('lenient-constructor-raises/%s' % type(e).__name__, '%r (allow_empty_author=%r) on %r' % (e, aea, text), small)
        return False
    finally:
        _STATE['gate'] = False
    ctx.mon('M.total')
    warned = bool(w)
    sites = set(warn_site(x) for x in w)
    for m in sites:
        ctx.count('warn:' + m)
    if len(sites) == 1:       # the text has problems of one kind only: strict mode must raise at exactly that site
        ctx.count('sole:' + min(sites))
    # reach of the class "a REPORTED line contains a character that is special in Python string formatting":
    # measured on what the live parser put into its warnings (evidence / floors only, never a verdict)
    text_kinds = g.fmt_kinds(text)
    reported = set()
    for x in w:
        ks = g.fmt_kinds(x)
        if ks:
            site = warn_site(x)
            for k in ks:
                reported.add('fmt:reported:%s:%s' % (site, k))
            for t in g.fmt_tokens(x):
                reported.add('fmt:reported-token:' + t)
    for name in reported:
        ctx.count(name)
    if text_kinds:
        for m in sites:
            ctx.count('fmt:site-on-text-with-special:' + m)
    # --- strict raises <=> lenient warned
    raised, sw, cs = False, [], None
    try:
        cs, sw = _parse(text, aea, strict=True)
    except cl.ChangelogParseError as e:
        raised = True
        try:
            shown = str(e)
        except Exception as e2:     # the statement demands the raise, not that the error can be printed
            shown = ''
            _note(ctx, 'parse-error-cannot-be-printed', '%s from str(ChangelogParseError) on %r' % (type(e2).__name__, text))
        for k in g.fmt_kinds(shown):
            ctx.count('fmt:strict-raised-on:' + k)
        if w and shown and w[0] not in shown:       # e.g. '%%' collapsed to '%' on one path only: not in the statement
            _note(ctx, 'strict-error-text-lacks-first-lenient-warning', 'lenient warned %r, strict error reads %r' % (w[0], shown))
    except Exception as e:
        ctx.violation('strict-raises-other-than-parse-error/%s' % type(e).__name__, '%r on %r' % (e, text), small)
        return warned
    ctx.mon('M.strict')
    ctx.count('strict:raised' if raised else 'strict:accepted')
    if warned and not raised:
        ctx.violation('strict-does-not-raise-on/%s' % warn_site(w[0]),
                      'lenient warned %r but strict=True returned normally (strict-mode warnings: %r); allow_empty_author=%r'
                      % (w[:3], sw[:3], aea), small)
    elif raised and not warned:
        ctx.violation('strict-raises-without-lenient-warning', 'strict=True raised ChangelogParseError, lenient emitted no '
                      'warning; allow_empty_author=%r; text %r' % (aea, text), small)
    elif sw:
        ctx.violation('strict-warns-instead-of-raising/%s' % warn_site(sw[0]), 'strict=True emitted warnings %r' % sw[:3], small)
    # --- normal form
    evaluated = normal_form(ctx, c, aea, small, 'M.normalform')
    if evaluated:
        for k in text_kinds:
            ctx.count('fmt:normalform:' + k)
            if not warned:
                ctx.count('fmt:accepted-silently:' + k)
        if len(c) and any(b.urgency_comment or b.other_pairs for b in c):
            ctx.count('normalform:rich-heading')
        if 'eof-inside-block' in sites:
            ctx.count('normalform:eof-block')
    if info is not None:
        info.update(nblocks=len(c), sites=sites, evaluated=evaluated, fmt_reported=bool(reported))
    if ws is not None:
        # the strictly parsed object is "a parsed changelog" too
        if cs is not None and not warned and not sw:
            if normal_form(ctx, cs, aea, small, 'M.normalform-strict', suffix='/strictly-parsed-object', strict=True):
                ctx.count('ws:strict-object-normalform')
            try:
                d = _diff(snap_all(cs), snap_all(c))
            except Exception:
                d = None
            if d is not None:
                _note(ctx, 'strict-and-lenient-objects-differ', 'block %r attribute %s on %r' % (d[0], d[1], text))
        # the formatted output is an input text of its own
        if evaluated:
            try:
                out = str(c)
            except Exception:
                out = None
            if info is not None:
                info['output_same'] = (out == text)
            if out is not None and out != text:
                ctx.count('ws:output-as-input')
                check_text(ctx, out, aea)
    return warned


class _Stop(Exception):
    """Ends a history after its first recorded violation (no cascades)."""


def snap(b):
    """All public observables of one block as plain data (the history model is made of these)."""
    d = sig7(b)
    d.update(sig_extra(b))
    return d


def snap_all(c):
    return [snap(b) for b in c]


def _diff(live, expected):
    """First (block index, attribute) at which two snapshot lists differ; block index None = different length."""
    if len(live) != len(expected):
        return (None, 'block-count')
    for n, (x, y) in enumerate(zip(live, expected)):
        if x != y:
            return (n, [k for k in ATTRS if x[k] != y[k]][0])
    return None


def _canon(attr, val):
    if attr == 'version':
        return str(val['__version__'] if isinstance(val, dict) else val)
    if attr == 'other_pairs':
        return dict(val)
    if attr == 'changes':
        return list(val)
    return val


def _handle(c, idx, how):
    """Block idx of the changelog, reached through one of the public ways."""
    if how == 'iter':
        for n, b in enumerate(c):
            if n == idx:
                return b
        raise IndexError(idx)
    if how == 'list':
        return list(c)[idx]
    if how == 'neg':
        return c[idx - len(c)]
    return c[idx]


class _NoHeld(Exception):
    """The op refers to a kept Version object but the caller holds none (nothing readable was read)."""


def _version_arg(val, held):
    """-> (value to pass to the library, the version that passing it SETS (str), hold entry or None)."""
    from debian import debian_support as ds
    if not isinstance(val, dict):
        return val, str(val), None
    if '__held__' in val:
        if not held:
            raise _NoHeld()
        e = held[val['__held__'] % len(held)]
        return e['obj'], str(e['obj']), e       # what the caller's object shows now is what the call sets
    obj = ds.Version(val['__version__'])
    entry = {'obj': obj, 'origin': None, 'block': None, 'new': True, 'handed': 0} if val.get('keep') else None
    return obj, str(val['__version__']), entry


def _hold(held, entry, origin, block):
    if entry is None or held is None:
        return
    entry['handed'] = entry.get('handed', 0) + 1
    if entry.pop('new', False):
        entry.update(origin=origin, block=block)
        held.append(entry)


def _do_op(c, op, held=None):
    """One call on the live object.  Returns (kind, block index, attribute, handle, extra) or None / 'no-held'
    (skipped).  `held`: the Version objects the caller keeps (dicts: obj, origin, block)."""
    held = [] if held is None else held
    try:
        return _do_op_inner(c, op, held)
    except _NoHeld:
        return 'no-held'


def _do_op_inner(c, op, held):
    kind = op[0]
    if kind == 'vmut':              # the caller assigns to an attribute of a Version object it keeps
        if not held:
            return 'no-held'
        e = held[op[1] % len(held)]
        before, outcome = str(e['obj']), 'applied'
        try:
            setattr(e['obj'], op[2], op[3])
        except ValueError:
            outcome = 'rejected'
        except Exception as x:      # the Version class is not this property's subject
            outcome = 'raised:' + type(x).__name__
        return (kind, None, op[2], None, (e, before, str(e['obj']), outcome))
    if kind == 'new_block':
        kw = dict(op[1])
        setval = entry = None
        if isinstance(kw.get('version'), dict):
            kw['version'], setval, entry = _version_arg(kw['version'], held)
        if 'changes' in kw:
            kw['changes'] = list(kw['changes'])        # the library keeps (and later edits) the list it is given
        if 'other_pairs' in kw:
            kw['other_pairs'] = dict(kw['other_pairs'])
        c.new_block(**kw)
        _hold(held, entry, 'arg:new_block', c[0] if len(c) else None)
        return (kind, 0, None, None, (setval, entry))
    if len(c) == 0:
        return None
    if kind == 'vread':             # the caller reads a Version object from the changelog and keeps it
        src = op[1]
        idx = 0 if src in ('cl.version', 'get_version') else (op[2] if len(op) > 2 else 0) % len(c)
        how = (op[3] if len(op) > 3 else 'index') if src == 'block' else None
        blk = _handle(c, idx, how) if src == 'block' else list(c)[idx]
        if src == 'cl.version':
            v = c.version
        elif src == 'get_version':
            v = c.get_version()
        elif src == 'block':
            v = blk.version
        elif src == 'versions':
            v = c.versions[idx]
        elif src == 'get_versions':
            v = c.get_versions()[idx]
        else:
            raise ValueError('unknown vread source %r' % (src,))
        if v is not None:
            held.append({'obj': v, 'origin': 'read:' + src, 'block': blk, 'handed': 0})
        return (kind, idx, 'version', how, None if v is None else str(v))
    if kind == 'add_change':
        c.add_change(op[1])
        return (kind, 0, 'changes', None, None)
    if kind == 'set':
        val, setval, entry = (op[2], None, None)
        if op[1] == 'version':
            val, setval, entry = _version_arg(op[2], held)
        if len(op) > 3 and op[3] == 'method' and op[1] == 'version':
            c.set_version(val)
        else:
            setattr(c, op[1], val)
        _hold(held, entry, 'arg:set', c[0])
        return (kind, 0, op[1], None, (setval, entry))
    if kind == 'bset':
        idx = op[1] % len(c)
        how = op[4] if len(op) > 4 else 'index'
        val, setval, entry = (copy.deepcopy(op[3]), None, None)
        if op[2] == 'version':
            val, setval, entry = _version_arg(op[3], held)
        b = _handle(c, idx, how)
        setattr(b, op[2], val)
        _hold(held, entry, 'arg:bset', b)
        return (kind, idx, op[2], how, (setval, entry))
    if kind == 'badd':
        idx = op[1] % len(c)
        how = op[3] if len(op) > 3 else 'index'
        _handle(c, idx, how).add_change(op[2])
        return (kind, idx, 'changes', how, None)
    if kind == 'seteach':
        setval = entry = None
        if op[1] == 'version':      # ONE object handed to every block
            val, setval, entry = _version_arg(op[2], held)
            for b in c:
                b.version = val
        else:
            for b in c:
                setattr(b, op[1], copy.deepcopy(op[2]))
        _hold(held, entry, 'arg:seteach', None)
        return (kind, None, op[1], 'iter', (setval, entry))
    raise ValueError('unknown op %r' % (op,))


def _views(c, model):
    """Changelog-level version views vs the model: (view name, shown, expected) of the first disagreement, or None.
    A view is compared only when every version it has to construct is valid (or unset) in the model."""
    if not len(c):
        return None
    mv = [m['version'] for m in model]

    def ok(x):
        return x is None or not x.startswith('raw:')

    def show(v):
        return None if v is None else str(v)
    if ok(mv[0]):
        for name, got in (('cl.version', show(c.version)), ('cl.get_version()', show(c.get_version()))):
            if got != mv[0]:
                return (name, got, mv[0])
    if all(ok(x) for x in mv):
        for name, got in (('cl.versions', [show(v) for v in c.versions]),
                          ('cl.get_versions()', [show(v) for v in c.get_versions()])):
            if got != mv:
                return (name, got, mv)
    return None


ORIGIN_KIND = {'arg:new_block': 'passed-to-new_block', 'arg:set': 'passed-to-setter', 'arg:bset': 'passed-to-setter',
               'arg:seteach': 'passed-to-setter'}


def apply_ops(ctx, c, ops, aea, case):
    """Runs the history on the live changelog and on a plain-data model (list of snap() dicts, one per block);
    after every call all blocks are read back and compared with the model.  Returns (stats, model)."""
    from debian import changelog as cl
    model = snap_all(c)
    st = collections.Counter()
    held = []           # Version objects the caller keeps: handed to the changelog, or read from it

    def stop(key, msg):
        ctx.violation(key, msg, case)
        raise _Stop()

    for pos, op in enumerate(ops):
        if op[0] == 'fmt':
            block = len(op) > 2 and op[1] == 'block' and len(c) > 0
            try:
                out = str(c[op[2] % len(c)]) if block else str(c)
                again = str(c[op[2] % len(c)]) if block else str(c)
            except cl.ChangelogCreateError:
                out = None
                ctx.count('fmt-mid:unformattable')
            except Exception as e:
                stop('format-raises-other-than-create-error/%s' % type(e).__name__, 'op %d: %r' % (pos, e))
            ctx.count('op:fmt-block' if block else 'op:fmt')
            ctx.mon('M.model')
            d = _diff(snap_all(c), model)
            if d is not None:
                stop('format-changed-the-blocks/%s' % d[1], 'op %d (%r): block %r attribute %s differs after formatting'
                     % (pos, op, d[0], d[1]))
            if out is not None:
                if again != out:         # layout-only impurity: the statement is silent -> evidence, not a verdict
                    _note(ctx, 'format-not-repeatable', 'two consecutive formats gave %r then %r' % (out, again))
                st['fmt'] += 1
                if st['vmut-changed']:
                    ctx.count('vobj:format-after-mutation')
                if not block and st['midcheck'] < 2 and pos < len(ops) - 1:
                    st['midcheck'] += 1          # the text formatted in mid-history is itself a normal form
                    normal_form(ctx, c, aea, case, 'M.history-mid', expect=model)
            continue
        try:
            r = _do_op(c, op, held)
        except ValueError:
            # reading a Version from a block whose raw version is not a valid version (mutated start texts) raises
            if op[0] == 'vread' and len(c) and any((m['version'] or '').startswith('raw:') for m in model):
                ctx.count('vobj:read-unreadable')
                continue
            raise
        if r is None or r == 'no-held':
            ctx.count('op:skipped-no-block' if r is None else 'op:skipped-nothing-held')
            continue
        kind, idx, attr, how, xtra = r
        live = snap_all(c)
        if kind in ('vread', 'vmut'):
            _check_vop(ctx, c, op, pos, r, live, model, st, aea, case, stop)
            continue
        ctx.mon('M.model')
        if kind == 'new_block':
            if len(live) != len(model) + 1:
                stop('new_block-block-count', 'op %d: %d blocks before, %d after' % (pos, len(model), len(live)))
            d = _diff(live[1:], model)
            if d is not None:
                stop('edit-changed-another-block/new_block', 'op %d: existing block %d attribute %s changed from %r to %r'
                     % (pos, d[0], d[1], model[d[0]][d[1]], live[1:][d[0]][d[1]]))
            for a in ATTRS:                  # only what was passed is demanded; defaults are taken as observed
                if a == 'version' and xtra[0] is not None:
                    if live[0][a] != xtra[0]:
                        stop('new_block-argument-not-read-back/version', 'op %d: passed a Version object showing %r, '
                             'block 0 reads %r' % (pos, xtra[0], live[0][a]))
                elif op[1].get(a) is not None and live[0][a] != _canon(a, op[1][a]):
                    stop('new_block-argument-not-read-back/%s' % a, 'op %d: passed %r, block 0 reads %r'
                         % (pos, op[1][a], live[0][a]))
            model = [copy.deepcopy(live[0])] + model
        else:
            expected = copy.deepcopy(model)
            targets = list(range(len(model))) if idx is None else [idx]
            if attr == 'changes':
                change = op[1] if kind == 'add_change' else op[2]
                lc, bc = live[idx]['changes'] if idx < len(live) else [], model[idx]['changes']
                if not (len(lc) == len(bc) + 1
                        and any(lc[p] == change and lc[:p] + lc[p + 1:] == bc for p in range(len(lc)))):
                    stop('add_change-is-not-one-insertion/%s' % kind, 'op %d (%r, handle %s): changes of block %d were %r, are %r'
                         % (pos, op, how, idx, bc, lc))
                expected[idx]['changes'] = list(lc)     # WHERE the entry goes is not demanded
            else:
                val = op[2] if kind in ('set', 'seteach') else op[3]
                for t in targets:
                    expected[t][attr] = xtra[0] if (attr == 'version' and xtra and xtra[0] is not None) else _canon(attr, val)
            d = _diff(live, expected)
            if d is not None:
                bn, an = d
                if bn is None:
                    key = 'edit-changed-block-count/%s' % kind
                elif bn in targets and an == attr:
                    key = 'assignment-not-read-back/%s/%s' % (kind, attr)
                elif bn not in targets:
                    key = 'edit-changed-another-block/%s' % kind
                else:
                    key = 'edit-changed-another-attribute/%s' % kind
                stop(key, 'op %d (%r, handle %s): block %r attribute %s expected %r, reads %r'
                     % (pos, op, how, bn, an, None if bn is None else expected[bn][an],
                        None if bn is None else live[bn][an]))
            model = expected
        ctx.count('op:' + kind)
        st['done'] += 1
        if st['vmut-changed']:
            ctx.count('vobj:edit-after-mutation')
        if xtra and xtra[1] is not None:        # a Version object the caller keeps went through this call
            _after_handover(ctx, c, op, pos, kind, xtra, model, stop)
        if st['fmt']:
            st['edit-after-fmt'] += 1
            ctx.count('op:edit-after-mid-format')
        if kind in ('bset', 'badd') and idx >= 1:
            st['older'] += 1
            ctx.count('older:' + kind)
            ctx.count('older-attr:' + attr)
            ctx.count('handle:' + how)
            if st['fmt']:
                ctx.count('older:edit-after-mid-format')
        elif kind == 'seteach' and len(model) >= 2:
            st['older'] += 1
            ctx.count('older:seteach')
    return st, model


def _after_handover(ctx, c, op, pos, kind, xtra, model, stop):
    setval, entry = xtra
    if entry['handed'] > 1:
        ctx.count('vobj:handed-again:' + kind)
        if entry.get('mutated'):
            ctx.count('vobj:handed-again-after-mutation')
    else:
        ctx.count('vobj:handed:' + kind)
    if str(entry['obj']) != setval:     # the statement is about the changelog, not about the caller's object
        _note(ctx, 'callers-version-object-changed-by-the-call', 'op %d (%r): the object showed %r before the call, '
              '%r after' % (pos, op, setval, str(entry['obj'])))
    ctx.mon('M.vobject')
    d = _views(c, model)
    if d is not None:
        stop('version-view-differs-from-what-was-set/%s' % d[0], 'op %d (%r): %s shows %r, the blocks were set to %r'
             % (pos, op, d[0], d[1], d[2]))


def _check_vop(ctx, c, op, pos, r, live, model, st, aea, case, stop):
    """After a Version object was read from the changelog / a kept Version object was mutated by the caller: no
    block changed, the views show the versions that were set, the formatted text is a normal form of the model."""
    kind, idx, attr, how, xtra = r
    ctx.mon('M.vobject')
    if kind == 'vread':
        ctx.count('vobj:read:' + op[1] if xtra is not None else 'vobj:read-none')
        if how:
            ctx.count('vobj:read-handle:' + how)
        d = _diff(live, model)
        if d is not None:
            stop('reading-a-version-changed-the-blocks/%s' % d[1], 'op %d (%r): block %r attribute %s differs after the read'
                 % (pos, op, d[0], d[1]))
        if xtra != model[idx]['version']:
            stop('version-read-differs-from-what-was-set/%s' % op[1], 'op %d (%r): the object read shows %r, block %d '
                 'was set to %r' % (pos, op, xtra, idx, model[idx]['version']))
        if xtra is not None and idx >= 1:
            ctx.count('vobj:read-from-older-block')
        return
    e, before, after, outcome = xtra
    origin = e['origin']
    okind = ORIGIN_KIND.get(origin, 'read-from-changelog')
    if outcome != 'applied':
        ctx.count('vobj:mutation-rejected')
        if outcome != 'rejected':
            _note(ctx, 'version-mutation-raises-other', 'op %d (%r) on Version(%r): %s' % (pos, op, before, outcome))
    changed = after != before
    if changed:
        st['vmut-changed'] += 1
        e['mutated'] = True
        ctx.count('vobj:mutated:' + origin)
        ctx.count('vobj:mutated-attr:' + op[2])
        ctx.count('vobj:mutated-kind:' + okind)
        where = [n for n, b in enumerate(c) if b is e['block']]
        ctx.count('vobj:mutated-while-block-is:%s' % ('every-block' if origin == 'arg:seteach' else 'gone' if not where
                                                      else 'newest' if where[0] == 0 else 'older'))
        if e.get('handed', 0) > 1:
            ctx.count('vobj:mutated-object-handed-to-several-blocks')
        if st['fmt']:
            ctx.count('vobj:mutated-after-mid-format')
    else:
        ctx.count('vobj:mutation-no-change')
    d = _diff(live, model)
    if d is not None:
        bn, an = d
        stop('version-object-mutation-changed-the-changelog/%s/%s' % (okind, an),
             'op %d (%r): the caller assigned %s=%r to a Version object %s (it showed %r, shows %r now); afterwards block %r '
             'attribute %s reads %r, the history had left %r'
             % (pos, op, op[2], op[3], origin, before, after, bn, an, None if bn is None else live[bn][an],
                None if bn is None else model[bn][an]))
    d = _views(c, model)
    if d is not None:
        stop('version-object-mutation-changed-the-changelog/%s/%s' % (okind, d[0]),
             'op %d (%r) on a Version object %s (showed %r, shows %r now): %s shows %r, the blocks were set to %r'
             % (pos, op, origin, before, after, d[0], d[1], d[2]))
    if changed and st['vcheck'] < 2:
        st['vcheck'] += 1           # the text formatted right after the mutation still shows what was set
        if normal_form(ctx, c, aea, case, 'M.vobject-format', expect=model):
            ctx.count('vobj:format-checked-after-mutation:' + okind)


def _start_changelog(case, aea):
    from debian import changelog as cl
    if case.get('start') is None:
        return cl.Changelog(), []
    return _parse(case['start'], aea)


def _strings(obj):
    """All str leaves of a JSON-able value (dict keys included)."""
    if isinstance(obj, str):
        yield obj
    elif isinstance(obj, dict):
        for k, v in obj.items():
            yield k
            for x in _strings(v):
                yield x
    elif isinstance(obj, (list, tuple)):
        for v in obj:
            for x in _strings(v):
                yield x


def _note(ctx, slug, msg):
    """Non-deciding observation (counter + up to 5 samples in the evidence): behaviour a maintainer would want to
    know about but on which the statement is silent, so it never becomes a verdict."""
    ctx.count('note:' + slug)
    notes = ctx.extra.setdefault('notes_non_deciding', [])
    if len(notes) < 5:
        notes.append('%s: %s' % (slug, msg[:600]))


def twin_check(ctx, c, case, aea):
    """NON-DECIDING.  The same history WITHOUT its mid-history formats is run on a second object; a different final
    text means formatting is not a pure read of the layout state (separators, trailing lines).  The statement only
    demands that whatever is formatted is a normal form of the current blocks, so this is reported as a note."""
    from debian import changelog as cl
    twin, _w = _start_changelog(case, aea)
    held = []
    for op in case['ops']:
        if op[0] != 'fmt':
            try:
                _do_op(twin, op, held)
            except ValueError:
                if op[0] != 'vread':
                    raise

    def fmt(x):
        try:
            return str(x)
        except cl.ChangelogCreateError as e:
            return ('unformattable', str(e))
    ctx.mon('N.twin')
    a, b = fmt(c), fmt(twin)
    if a != b:
        _note(ctx, 'mid-history-format-changes-final-text', 'with the mid-history formats the history ends in %r, '
              'without them in %r' % (a, b))


def _count_ws(ctx, ws, info):
    """Reach of the irregular-blanks class, measured on the live parse (evidence and floors only)."""
    slots, runs = ws.get('slots') or [], ws.get('runs') or []
    outcome = 'warned' if info['sites'] else 'accepted-silently'
    ctx.count('ws:texts')
    ctx.count('ws:' + outcome)
    ctx.count('ws:position:%s' % ws.get('pos', 'replay'))
    for s in slots:
        ctx.count('ws:slot:' + s)
        if info['evaluated']:
            ctx.count('ws:normalform:' + s)
    if len(slots) == 1:
        ctx.count('ws:%s:%s' % (outcome, slots[0]))
    for rc in runs:
        ctx.count('ws:run:' + rc)
        if info['evaluated'] and not info['sites']:
            ctx.count('ws:normalform-accepted-silently-run:' + rc)
    if info['evaluated']:
        ctx.count('ws:normalform')
        if info['nblocks'] >= 2:
            ctx.count('ws:normalform-on-2+-blocks')
        if not info['sites'] and 'output_same' in info:     # library's choice: evidence only, never floored
            ctx.count('ws:output-equals-input' if info['output_same'] else 'ws:output-differs-from-input')
    else:
        ctx.count('ws:unformattable')


def run_case(ctx, case):
    kind = case['kind']
    if kind == 'text':
        text = case['text']
        warned = ws_evaluated = False
        irr = case.get('irr')
        for aea in case.get('aea', [False, True]):
            info = {}
            warned = check_text(ctx, text, bool(aea), info, ws=case.get('ws')) or warned
            if case.get('ws') is not None and info:
                _count_ws(ctx, case['ws'], info)
                ws_evaluated = ws_evaluated or info['evaluated']
            if irr and info:
                # reach of the class "irregular construct in a non-last block" (evidence, measured on the live parse)
                ctx.count('multi:texts')
                ctx.count('multi:family:%s' % irr.get('family'))
                if info['evaluated'] and info['nblocks'] >= 2:
                    ctx.count('multi:normalform-on-2+-blocks')
                    if info['sites']:
                        ctx.count('multi:warned-and-2+-blocks')
                    if 'bad-trailer' in info['sites'] and info['nblocks'] == irr.get('n'):
                        ctx.count('multi:bad-trailer-accepted-in-non-last-block')
                    if info['nblocks'] >= 3 and 0 < irr.get('k', 0):
                        ctx.count('multi:irregular-in-middle-block')
                    if info.get('fmt_reported'):
                        ctx.count('fmt:reported-on-2+-blocks')
        off_path = any(g.line_class(l) not in ('heading-ok', 'heading-rich', 'blank-ish', 'change-ok', 'trailer-ok')
                       for l in text.split('\n'))
        if warned or off_path or ws_evaluated:
            ctx.nontrivial(case={'text': text})
        ctx.count('src:' + case.get('src', 'replay').split(':')[0])
    elif kind == 'hist':
        aea = bool(case.get('aea', False))
        try:
            c, _w = _start_changelog(case, aea)
        except Exception as e:
            ctx.violation('lenient-constructor-raises/%s' % type(e).__name__, '%r (allow_empty_author=%r) on %r'
                          % (e, aea, case['start']), {'kind': 'text', 'text': case['start'], 'aea': [aea]})
            return
        ctx.count('hist:from-empty' if case.get('start') is None else 'hist:from-parsed')
        eof = any(warn_site(x) == 'eof-inside-block' for x in _w)
        try:
            st, model = apply_ops(ctx, c, case['ops'], aea, case)
        except _Stop:
            return
        evaluated = normal_form(ctx, c, aea, case, 'M.history', eof_hint=eof, expect=model)
        if st['fmt']:
            twin_check(ctx, c, case, aea)
        if evaluated:
            for k in sorted(set(k for op in case['ops'] for x in _strings(op[1:]) for k in g.fmt_kinds(x))):
                ctx.count('fmt:hist-arg:' + k)        # an argument of an editing call carried the character
            for k in g.fmt_kinds(case.get('start') or ''):
                ctx.count('fmt:hist-start:' + k)
            if st['edit-after-fmt']:
                ctx.count('hist:final-format-after-mid-format-and-edit')
            if st['older'] and len(c) >= 2:
                ctx.count('hist:final-format-after-older-block-edit')
            if st['vmut-changed']:
                ctx.count('hist:final-format-after-version-object-mutation')
            if st['done'] >= 2:
                ctx.nontrivial(case={'start': case.get('start'), 'ops': case['ops']})
        ctx.count('hsrc:' + case.get('src', 'random'))
        if case.get('src') in ('ws', 'ws-enum'):
            ctx.count('ws:hist')
            if evaluated:
                ctx.count('ws:hist:final-format')
                if st['older']:
                    ctx.count('ws:hist:final-format-after-older-block-edit')
                if st['edit-after-fmt']:
                    ctx.count('ws:hist:final-format-after-mid-format-and-edit')
    else:
        raise ValueError('unknown case kind %r' % kind)


LEVEL_TEXT = ('Runtime monitoring: mutated changelog texts (generated well-formed blocks and the repository\'s fixtures, '
              '0-4 line insertions from a ~40-class junk pool / deletions / duplications, every junk spelling also '
              'enumerated alone, before the first heading, after the heading, inside the changes and after the last '
              'trailer) are parsed by the live tree leniently and strictly with allow_empty_author off and on; the '
              'boundary monitor checks that the lenient constructor returned, that strict raised ChangelogParseError '
              'exactly when lenient warned, and that every formattable result re-parses to the same blocks and formats '
              'to the identical text; the same normal-form check runs after short histories of new_block / add_change / '
              'attribute assignments, including edits of older blocks reached through indexing / iteration and formats in '
              'mid-history, each step compared with a plain-data model of the blocks.  A sys.monitoring LINE probe on parse_changelog records which (parser state, line '
              'class) pairs were visited.  Held-on-observed: reach is the sampled texts and histories.')
LEVEL_NOTE = ('Trusted: CPython, the warnings machinery, the harness line classifier (evidence only).  Not covered: bytes / '
              'file-object inputs, max_blocks, malformed argument values to the editing calls, _format(allow_missing_author=True).')
TECHNIQUE = ('runtime monitoring: differential boundary oracle M (strict vs lenient parse of the same text, warnings captured) '
             'plus idempotence oracle (format -> re-parse -> format) on parsed and programmatically edited changelogs; '
             'sys.monitoring LINE probe on parse_changelog for (state, line class) reach; deciding monitor M.strict/M.normalform')
