"""C16 - a Files paragraph matches a name exactly when one of its globs matches
the WHOLE name; illegal escapes are format errors; find_files_paragraph returns
the LAST matching Files paragraph (or None); no stale answer after ``files`` is
re-assigned.

Deciding monitor M (boundary oracle): vp.models.globmatch - an independent glob
matcher (position-set NFA simulation, cross-checked on every evaluation against
an edit-distance DP of the same dialect) - compared with what the live
``FilesParagraph.matches`` / ``Copyright.find_files_paragraph`` answer for
hostile seeded (pattern list, name) pairs.  Names are NEAR MISSES: literal
expansions of the patterns with 0..2 single-character edits (appended suffixes,
dropped characters, '/' and newline inside wildcard runs).

Observation points are the statement's subjects (`matches`,
`find_files_paragraph`); the text of the generated regular expression is never
inspected.  Case kinds:

  para   FilesParagraph.create(pats, ...).matches(name)            (M.match, M.error)
  enum   same, bounded-exhaustive small pattern/name spaces        (M.match)
  hist   one paragraph, history of `files = ...` / matches(name)   (M.match, M.stale)
  doc    parsed or built Copyright with 1..n Files paragraphs and
         interleaved License paragraphs; find_files_paragraph and
         every paragraph's matches; optional re-assignment          (M.find, M.match, M.stale)
  doc+seps  the same for PARSED documents whose paragraphs are separated by
         WHITESPACE-ONLY lines (blanks / tabs: ' ', '\\t', '  \\t', ...) mixed
         with empty ones, in runs of 1..3 lines; forced adjacencies across
         such a run: header/Files, Files/Files, Files/License,
         License/Files; Files field first / last / in the middle of its
         paragraph (so the whitespace-only line directly follows a Files
         value, a continuation line of it, or a License text line);
         sources: list of str with / without line ends, list of bytes,
         StringIO, BytesIO, on-disk file in text and binary mode.
         all_files_paragraphs() against what was written, then
         find_files_paragraph and every matches() as for every parsed
         document; ~30% of the parsed starts of build histories carry
         such separators too          (M.ws.order, M.ws.find, M.match, M.ws-build.order)
  doc+seps+strict=False  the same class handed to Copyright(..., strict=False), with gaps of
         SEVERAL separator lines more often (2..4 lines: empty line followed by a
         blank / tab line and vice versa, 'ew' 'we' 'ewe' 'wew' 'eew' 'ewew' ...);
         also ~35% of the whitespace-separated parsed starts of build histories.
         Same oracle; a disagreement of all_files_paragraphs() is decided by up to
         three control documents (empty lines instead of whitespace-only ones; ONE
         empty line per gap; that one parsed with the default strict=True) - see
         ASSUMPTIONS; keys get the suffix /parsed-with-strict=False
                                                 (M.ws-ns.order, M.ws-ns.find, M.match)
  long   paragraphs BUILT through the API with LONG pattern lists: FilesParagraph.create
         (list or tuple) and `files = list / tuple` (on a free paragraph / on a paragraph already in
         the document, after the paragraph answered for its first, short list) with
         lists whose space-joined text is 100..600 characters (many quilt-style
         hyphenated patch names 'debian/patches/fix-foo-bar-7.patch', paths with
         '*' '?' next to hyphens, escapes, other punctuation), a SINGLE pattern of
         100..600 characters (path of hyphenated components / one unbroken word,
         with and without wildcards), and lists of exactly 72..88 characters; later
         paragraphs repeat patterns of earlier ones (the LAST must win).  Names: the
         literal expansion of the patterns (for a wildcard-free pattern the name
         equal to the pattern), preferring the patterns that straddle column 70..80
         (x k) of the joined text; the two pieces a cut behind one of its hyphens
         / at column 70..80 of a long pattern would leave; two neighbours glued
         together; one edit.  Stages: built -> [one list re-assigned to a list that
         differs in ONE character behind offset 90] -> dump() (returned / written to
         a file object) and re-parse (7 source kinds, strict and strict=False).  At
         every stage: `files` against the list given (M.long.files - not a verdict by
         itself, see ASSUMPTIONS), every paragraph's matches() against the glob model,
         find_files_paragraph against the last-match rule
                          (M.long.files, M.long.find, M.long.reparse, M.long.reparse.find, M.match, M.stale)
  lead   (kind 'long' with cls 'lead': the same stages and oracle as `long`) paragraphs BUILT through the API whose
         patterns START with '.' or '/': '.gitignore' '.github/*' '../shared/?.h' './x' '/abs/*' '...' '.' '..' '/' './'
         '../' '.*' './/x' '/./x' '../../include/*.h' - a prefix ('.', './', '/', '../', '..', '...', '.../', '../../',
         '/./', '//', '././', ...) in front of realistic bodies; lists mix them with the SAME pattern without / with other
         leading characters, in the same paragraph and in later ones (the LAST paragraph that really matches must answer).
         Names: literal expansions; the same with the leading run of '.' '/' stripped (lstrip('./'), lstrip('.'),
         lstrip('/'), one character, the prefix, path-normalised, base name); the same with './' '/' '.' '../' put in
         front or '/' '/.' behind; one edit; fixed probes ('.', '..', '/', './', '', '.x', ...).  `files` against the list
         given (M.lead.files; as for `long` a difference is turned into names), matches() against the glob model,
         find_files_paragraph against the last-match rule, re-assignment to a list in which ONE pattern lost / gained
         leading characters, dump() and re-parse
                          (M.lead.files, M.lead.find, M.lead.reparse, M.lead.reparse.find, M.match, M.stale)
  cmt    copyright files with '#' COMMENT LINES handed to Copyright() as BYTES: list / tuple of bytes lines (with and
         without line ends), bytes lines from a generator / an iterator, io.BytesIO, io.BufferedReader, an on-disk file
         opened 'rb' (buffered and unbuffered), [a whole bytes string]; default and strict=False.  Comment positions, one
         forced per document: a comment-only block BETWEEN paragraphs (empty line, comment(s), empty line; several
         blocks; whitespace-only lines around it), comment lines INSIDE a multi-line Files field (between 'Files:' and the
         first continuation line, between continuation lines, behind the last one), directly in front of the first field
         of a paragraph, directly behind the last field, between fields, inside a License text, at the top of the file
         (with / without an empty line behind it), after the last paragraph (with and without empty lines, last line with
         and without end of line), COMMENTED-OUT FIELD LINES ('#Files: old7/*', '# Files: ..', '#Copyright: ..',
         '#License: ..', '#Files:') inside a Files field and elsewhere; comment texts '#', '#\t', '##', '# .', non-ASCII.
         6% of the documents carry a pattern that CONTAINS '#' ('a#b', ' #x' on a continuation line: not a comment).
         The SAME document is parsed from the str source of the same family first (the control; judged against what was
         written = the document without its comment lines: paragraphs, files tuples, matches(), find_files_paragraph),
         then from bytes and judged in the same way, then both are compared name by name
                (M.cmt.str.order, M.cmt.str.files, M.cmt.str.find, M.cmt.order, M.cmt.files, M.cmt.find, M.cmt.same, M.match)
  enc    copyright files handed to Copyright() as BYTES in which exactly ONE line is NOT VALID UTF-8: a Copyright / Comment /
         License-text / Disclaimer / Upstream-Contact / Source line (first line of its field or a continuation line) that carries
         an author name in a legacy encoding (latin-1, cp1252, iso-8859-15, cp437, cp850, mac-roman, cp1250, iso-8859-2, koi8-r,
         cp1251, iso-8859-5, shift_jis, euc-jp), while the Files fields and the queried names carry correct UTF-8 non-ASCII
         characters ('docs/café/*', 'ünï/*.c', '中文/*', 'src/日本語/?.c', Greek, Cyrillic, a 4-byte character, ...).  The bad
         line stands (one position forced per document) in the same paragraph BEFORE the Files field, in the same paragraph
         AFTER it, in an EARLIER paragraph (header, stand-alone License, other Files paragraph), in a LATER one; directly in front
         of / behind the Files field.  Sources as for `cmt` (without the whole bytes string); default and strict=False.  The
         CONTROL is the same document with that line made valid (all lines UTF-8): judged against what was written.  The
         document with the bad line must show the same Files paragraphs, the same files tuples, the same matches() answers and
         the same find_files_paragraph results; what the bad line itself reads as is never looked at (not even the id of a
         paragraph whose Copyright line it is).  Names: literal expansions of the patterns over an alphabet with non-ASCII
         characters, one edit, the MOJIBAKE reading of an expansion (its UTF-8 bytes read as latin-1 / cp1252 / cp1253 / ...),
         its ASCII folding
                (M.enc.ctl.order, M.enc.ctl.files, M.enc.ctl.find, M.enc.order, M.enc.files, M.enc.find, M.enc.same, M.match)
  pgp    copyright files in which Comment / License / Copyright / Disclaimer texts QUOTE PGP ARMOR LINES on CONTINUATION lines,
         leading blank(s) kept (' -----BEGIN PGP SIGNATURE-----', '   -----BEGIN PGP SIGNED MESSAGE-----', tab-led, with
         trailing blanks; BEGIN without END, BEGIN .. END, a lone END line, a whole quoted clear-signed message, a key block; 10%
         of the quotes start on the field line itself: 'Comment: -----BEGIN PGP SIGNATURE-----'), hosted by the header, a Files
         paragraph (before / behind its Files field) or a stand-alone License paragraph, in front of later Files paragraphs.
         Only a marker in column 0 is armor: every paragraph written must be there.  str and bytes sources (20 kinds), default
         and strict=False.  all_files_paragraphs() against what was written, files tuples, matches(), find_files_paragraph
         (last match)                                                  (M.pgp.order, M.pgp.files, M.pgp.find, M.match)
  ubl    PARSED copyright files (str and bytes sources, 22 kinds; default and strict=False) whose multi-line Files field has
         CONTINUATION LINES LED IN BY A UNICODE BLANK OTHER THAN SPACE / TAB: U+00A0, U+1680, U+2000..U+200A, U+202F, U+205F, U+3000
         (no str.splitlines() boundaries), alone or mixed with a plain blank / tab / a second such character (blank then NBSP,
         NBSP then blank, ...); first / middle / last continuation line, all of them or some; field line with or without a pattern.
         Unchanged tree: a continuation line, its patterns belong to the field without the lead.  The CONTROL (the same lines led in
         by one plain space) must parse to what was written.  all_files_paragraphs() and files tuples against what was written,
         matches() for names covered ONLY by patterns on such lines (and for the same names with the lead in front), find_files_paragraph
         last-match (later paragraphs whose only matching pattern stands on such a line must win); the same Files text as a Deb822
         mapping given to FilesParagraph()          (M.ubl.ctl.order, M.ubl.order, M.ubl.files, M.ubl.find, M.ubl.map, M.match)
  raw    patterns with blanks / tabs / newlines, which cannot be
         written in a Files field: globs_to_re driven through the
         real FilesParagraph.matches of a subclass whose `files`
         yields the raw list; plus globs_to_re error reporting      (M.match, M.error)
  build  BUILD HISTORIES through the public API of Copyright: start
         from an empty Copyright() or from a parsed document, then
         interleave add_files_paragraph(FilesParagraph.create(..)),
         add_license_paragraph(LicenseParagraph.create(..)),
         re-assignment of a paragraph's `files`, and query steps
         ['q', mask]: 1 = all_paragraphs() / all_files_paragraphs()
         against an independent model of the document (a new Files
         paragraph goes directly after the last Files paragraph),
         2 = find_files_paragraph + every paragraph's matches for
         every name of the case, 4 = dump()-then-parse must resolve
         every name to the same paragraph as the live document and
         the model                       (M.build.order, M.build.find, M.build.reparse, M.match)
  incr   documents built INCREMENTALLY through the Copyright API in which license SHORT NAMES (synopses) are SHARED: start
         from Copyright() or from a parsed document (9 source kinds, 25% strict=False; Files and stand-alone License paragraphs
         in any order, also License paragraphs only / the header only), then 3..8 (thorough 3..10) add_files_paragraph /
         add_license_paragraph calls in mixed orders.  The short name of every new paragraph is drawn by its RELATION to the
         document as it is at that point: that of an earlier Files paragraph, that of an earlier stand-alone License paragraph
         (= the same License short name added twice; 40% of those with the identical text), that of both, or one the document
         does not contain; forced shapes: License paragraphs (one short name twice) BEFORE any Files paragraph exists, then
         Files paragraphs under those names; Files paragraph, then a License paragraph under ITS short name, then a later Files
         paragraph under it too, then that License short name once more.  Half of the Files paragraphs that share a short name
         with an earlier one also share its Copyright text; 30% carry the license text themselves; 20% of the headers name one
         of the licenses too.  Every paragraph carries its unique id in a Comment field.  At the start (parsed) and after
         EVERY add: all_paragraphs() = what it showed before + exactly the new paragraph (nothing dropped, replaced or
         re-ordered; files tuples intact), all_files_paragraphs() / all_license_paragraphs() = its Files / License paragraphs in
         its order, a new Files paragraph behind every earlier Files paragraph; find_files_paragraph for every name against the
         last-match rule over all Files paragraphs (+ every paragraph's matches(), once per history); dump() (returned /
         written to a file object) then parse, default AND strict=False (6 source kinds): same Files paragraphs (id, files
         tuple), same License paragraphs, same resolution of every name
                                 (M.incr.start, M.incr.step, M.incr.find, M.incr.reparse, M.incr.reparse.find, M.match)

Build histories are judged after every query step against the document AS IT
IS NOW.  Shapes forced by the generator: queries on a document without any
Files paragraph, then adds, then queries; a document whose only Files paragraph
is the first paragraph after the header, followed by stand-alone License
paragraphs, to which an OVERLAPPING Files paragraph is added (built through
the API and parsed); several adds in a row with nothing observed in between;
adds to parsed documents that end in License paragraphs (including documents
with License paragraphs only).

Unchanged tree, whitespace-only separators (probed before the class was added):
every line of blanks/tabs (also CR, FF, VT variants) separates paragraphs exactly
like an empty line, alone or in runs with empty lines, for list and file sources,
with and without line ends, str and bytes; the workload is silent on it.
Mutants of the separator class (repo tests still 234 passed), all exit 1 with
`files-paragraph-lost-at-whitespace-only-separator`:
  deb822 _blank_line_whitespace = ^[ ]{0,2}$|^\\t$ ('  \\t' no longer separates)
  deb822 _initial_blank_line = ^$ (document ends at an empty line followed by a blank one)
  Copyright() passes strict={'whitespace-separates-paragraphs': False}
  Copyright() drops blank-only lines from list input ("normalise")

Mutants of the long-list / non-strict classes (repo tests still 234 passed), all exit 1, none seen by the other classes:
  _SpaceSeparated.to_str folds with textwrap.wrap(.., 79)         matches-*-name/long-pattern-list-built-through-api/files-differs-from-the-list-given
  Copyright.dump() re-flows Files lines longer than 79 columns    matches-*-name/long-pattern-list-after-dump-and-reparse/files-differs-..
  _SpaceSeparated.from_str = re.findall(r'\\S{1,128}', s)          matches-*-name/long-pattern-list-built-through-api/files-differs-..
  files_pattern cache keyed on self['files'][:100]                stale-pattern-after-files-reassigned/long-pattern-list-re-assigned
  Copyright(strict=False) parses with whitespace-separates-paragraphs False
                                                                  files-paragraph-lost-at-whitespace-only-separator/parsed-with-strict=False
  Copyright(strict=False) "collapses" runs of blank lines and stops at the second blank line in a row
                                                                  files-paragraph-lost-at-gap-of-several-separator-lines/parsed-with-strict=False
                                                                  (first reported INCONCLUSIVE: the only control had the same
                                                                  gaps; a second control with ONE empty line per gap now decides)
  Copyright(strict=False) leaves out the last paragraph           files-paragraph-lost-at-any-paragraph-separator/parsed-with-strict=False
                                                                  (third control: the canonical document with the default strict=True)

Unchanged tree, comment lines (probed before the class was added): a line whose FIRST character is '#' is dropped
wherever it stands, for str and bytes sources alike (Deb822._skip_useless_lines); ' #x' is a continuation line.
Mutants of the comment / leading-character classes (repo tests still 234 passed), all exit 1; the first five are not seen
by any other class of this module:
  bytes comment lines dropped only in split_gpg_and_payload           files-paragraph-lost-at-comment-lines/bytes-source
        (a comment-only block between paragraphs reads as an empty paragraph: the document ends there)
  bytes: `line[0] == b'#'` (never true on Python 3)                   files-paragraph-lost-.. + matches-rejects-..files-differs-from-what-was-written
  bytes comment lines kept as empty lines                             document-rejected-.. / files-paragraph-lost-.. / matches-rejects-..
  bytes: comments only recognised once the paragraph has started      files-paragraph-lost-at-comment-lines/bytes-source
  bytes: only '# ' and a lone '#' are comments ('#Files: old/*' is a field) matches-rejects-matching-name/document-with-comment-lines/bytes-source/files-differs-..
  _SpaceSeparated.to_str drops a leading './'                         matches-*-name/leading-dot-or-slash-pattern-built-through-api/files-differs-from-the-list-given
  globs_to_re and matches() both drop a leading './'                  matches-accepts-non-matching-name/leading-dot-or-slash-pattern-built-through-api
  matches(): a list of wildcard-led patterns does not match '.x'      matches-rejects-matching-name/leading-dot-or-slash-pattern-built-through-api
  create() strips leading '/'                                         matches-*-name/leading-dot-or-slash-pattern-built-through-api/files-differs-..

Unchanged tree, one undecodable line / quoted armor lines (probed before the classes were added): chardet IS importable in this
sandbox (7.6.0); _AutoDecoder decodes LINE BY LINE: a line that is not valid UTF-8 gets a UnicodeWarning and is decoded with
whatever single-byte encoding chardet guesses for that line alone (Windows-1253 for 'José García' in latin-1, cp720,
MacLatin2, ...: ASCII stays ASCII, the name is usually wrong) - the `else:` branch that would make the guess stick for "the rest
of the paragraph" is dead code (the `try` body returns), every paragraph has its own decoder, so all other lines stay UTF-8.
Deb822._gpgre is anchored at column 0 and applied to the line with only CR / LF stripped: ' -----BEGIN PGP ..' is a
continuation line like any other.  Both classes are silent on the unchanged tree.
Mutants of these classes (repo tests still 234 passed), all exit 1, none seen by the other classes of this module:
  _AutoDecoder keeps the guessed encoding for the rest of the paragraph (the dead `else:` made live)
                                       matches-*-name/document-with-one-undecodable-line/files-differs-from-what-was-written
  _internal_parser decodes the paragraph in one go, on failure all its lines with the encoding guessed for the whole
                                       the same keys (lines BEFORE the bad line are mojibake too)
  one decoder per iter_paragraphs() call, guess sticks for the rest of the file      the same keys (LATER paragraphs)
  _gpgre = ^\\s*-----(BEGIN|END) ..      files-paragraph-lost-behind-quoted-pgp-armor-line/{str,bytes}-source[/parsed-with-strict=False],
                                       document-rejected-behind-.., files-paragraphs-differ-behind-..
  an indented '-----END PGP' line is taken for the end of the armor               the same keys
  marker also recognised behind 'Field: ' (search, (?:^|:[ \\t]*)-----..)            the same keys (the 12% quoted on the field line)
(the module as it was before these classes held on all six: exit 0)

Unchanged tree, Files continuation lines led in by a Unicode blank (probed before the class was added): Deb822._multidata is
^\\s.. on the decoded str, so every White_Space character leads in a continuation line (str and bytes sources alike);
_SpaceSeparated.from_str is str.split(), which drops the lead; Deb822.validate_input accepts such a value (str.isspace()).  The
class is silent on the unchanged tree.  Mutants (repo tests still 234 passed), all exit 1; the module as it was before held on them:
  deb822 _multidata = ^[ \\t](..)           (the line is dropped without a word)
        matches-rejects-matching-name/files-field-continuation-line-led-by-unicode-blank/{str,bytes}-source/files-differs-..,
        document-rejected-at-continuation-line-led-by-unicode-blank (Files field left empty), find resolving to the earlier paragraph
  _SpaceSeparated.from_str = re.split('[ \\t\\r\\n]+')  (the lead stays glued to the pattern)
        matches-rejects-.. / matches-accepts-.. with the same keys + ../files-text-with-unicode-blank-led-lines-given-as-mapping
  _skip_useless_lines strips a leading NBSP from BYTES lines ("not a legal first character")
        matches-rejects-matching-name/files-field-continuation-line-led-by-unicode-blank/bytes-source/.. only

Mutants of this class tried on a scratch copy (repo tests still 234 passed):
  find caches list(all_files_paragraphs()) at first use          caught (find-misses-matching-paragraph, find-first-match-wins)
  add_files_paragraph: `if not last_i: insert(0, ..)`            caught (files-paragraph-order-differs-from-documented-insertion)
  find memoises name -> paragraph, re-validated with matches()   caught (find-first-match-wins, find-not-last-matching-paragraph)
  add_files_paragraph uses a last-Files index never updated      caught (files-paragraph-order-differs-from-documented-insertion)
  add_files_paragraph appends behind the License paragraphs      NOT a C16 violation (same Files order, same resolution):
                                                                 recorded as build:note:* / build_notes in the evidence

Unchanged tree, incremental builds with shared license short names (probed before the class was added): add_license_paragraph
appends, add_files_paragraph inserts behind the last Files paragraph (at position 0 of a document with License paragraphs only),
neither looks at any License field; dump() writes every paragraph; the workload is silent on it.
Mutants of the class (repo tests still 234 passed), all exit 1, none seen by the other classes of this module (their License
paragraphs are 'M1' 'M2' .. / 'L0' 'L1' .., never the short name of another paragraph):
  add_license_paragraph replaces the stand-alone paragraph of the same short name    add-drops-or-replaces-existing-paragraph/add_license_paragraph
  add_files_paragraph stops looking for the last Files paragraph at the stand-alone
        License paragraph that carries its short name (parsed starts)               files-paragraph-order-differs-from-documented-insertion
  add_files_paragraph extends the last Files paragraph when holder and license agree add-does-not-add-exactly-one-paragraph/add_files_paragraph
  all_license_paragraphs() goes through a dict keyed by short name                  all_license_paragraphs-disagrees-with-all_paragraphs
  dump() writes a stand-alone license short name once                               dumped-document-has-different-license-paragraphs
  Copyright(sequence) skips a License paragraph whose short name it has seen         paragraphs-of-parsed-document-with-shared-license-short-name-differ-..
                                                                                    + dumped-document-has-different-license-paragraphs
"""
import io
import itertools
import json
import os
import random
import tempfile
import warnings

from ..models import globmatch as G

PROP = 'C16'
LEVEL = 'exploration'
RULE = ('Seeded pattern lists (1..3, thorough 1..4 patterns of 1..5, thorough 1..7 tokens over literals a b c A / . , the '
        'wildcards * ?, the escapes \\\\ \\* \\?, illegal escapes, regex metacharacters ( ) [ ] + | ^ $ { } - and, for '
        'direct globs_to_re use, blank/tab/newline) x names built as literal expansions of those patterns with 0..2 '
        'single-character edits (plus some random names); bounded-exhaustive sweeps of small pattern/name spaces; '
        'parsed and built documents with 1..5 (thorough 1..7) Files paragraphs interleaved with License paragraphs, 15% of '
        'them over a pool of realistic path globs; PARSED DOCUMENTS WITH WHITESPACE-ONLY SEPARATOR LINES (1..4, thorough 1..6 Files '
        'paragraphs + License paragraphs; in front of ~70% of the paragraphs a run of 1..3 separator lines containing a line of '
        'blanks/tabs - alone, before or after empty lines, two of them - otherwise one empty line; forced adjacencies across such a '
        'run header/Files, Files/Files, Files/License, License/Files; Files field first, last or in the middle of its paragraph, '
        'one-line and continuation-line values; sources list of str with and without line ends, list of bytes, StringIO, BytesIO, '
        'on-disk file in text and binary mode; the same separators in ~30% of the parsed starts of build histories); '
        'THE SAME CLASS PARSED WITH Copyright(..., strict=False), gaps of 2..4 separator lines in ~75% of the gaps (empty line followed '
        'by a blank / tab line and vice versa, e-w, w-e, e-w-e, w-e-w, e-e-w, e-w-e-w, ...), and ~35% of the whitespace-separated parsed '
        'starts of build histories; '
        'PARAGRAPHS BUILT THROUGH THE API WITH LONG PATTERN LISTS (1..3, thorough 1..4 such paragraphs + License paragraphs, 30% behind a '
        'short catch-all paragraph; FilesParagraph.create(list), files = list on a free paragraph (25%: a tuple instead of a list) and on a paragraph already in the '
        'document; space-joined length 100..600 - many hyphenated quilt-style patch names, paths with * ? next to hyphens, escapes, '
        'other punctuation - or ONE pattern of 100..600 characters, or exactly 72..88 characters; 60% of the later lists repeat 1..3 '
        'patterns of an earlier one; 4% carry an illegal escape; names = literal expansions of up to 4..5 patterns per list, those '
        'straddling column 70..80 (x k) of the joined text first, + the two pieces left by a cut behind a hyphen / at column 70..80 of a '
        'long pattern + two neighbours glued + one edit; stages built / one list re-assigned to a list differing in one character '
        'behind offset 90 (45%) / dump() then re-parse through 7 source kinds, 30% with strict=False); '
        "PARAGRAPHS BUILT THROUGH THE API WHOSE PATTERNS START WITH '.' OR '/' (1..3, thorough 1..4 such paragraphs, 25% behind a "
        "catch-all; create(list / tuple) 2/3, files = .. on a free paragraph / on a paragraph in the document 1/3; lists of 1..4 "
        "patterns: 35% from a fixed pool ('.gitignore' '.github/*' '../shared/?.h' './x' '/abs/*' '...' '.' '..' '/' './' '../' "
        "'.*' './/x' '/./x' ...), else one of 23 prefixes ('.', './', '/', '../', '..', '...', '.../', '../../', '/./', '//', "
        "'././', ...) + one of 42 bodies; 30% of the further patterns are a pattern of an EARLIER paragraph with its leading "
        "characters stripped or with leading characters added, 12% the same for a pattern of the same list, 18% hostile random "
        "patterns; 3% illegal; names = literal expansion + 2 variants with the leading '.' '/' run stripped (lstrip('./'), "
        "lstrip('.'), lstrip('/'), first character, the prefix, normpath, basename) + 1..2 with './' '/' '.' '../' '..' put in "
        "front or '/' '/.' behind + one edit (30%) + 2 fixed probes, 12..16 per case; 35% re-assign one list to a list in which "
        "one pattern lost / gained leading characters; dump() then re-parse through 7 source kinds, 30% strict=False); "
        "BYTES DOCUMENTS WITH '#' COMMENT LINES (1..4, thorough 1..5 Files paragraphs + License paragraphs; 75% of the Files "
        "fields multi-line; pattern lists hostile random / overlapping an earlier list / realistic / 12% leading-dot-or-slash; "
        "one comment position forced per document - block between paragraphs 3/14, inside a multi-line Files field 3/14, "
        "commented-out field lines inside a Files field 2/14, after the last paragraph 2/14, directly before the first field "
        "1/14, top of file 1/14, mixed 2/14 - the others at 6..25%; 1..3 comment lines per place; sources list of bytes "
        "3/17, BytesIO 3/17, file opened 'rb' 3/17, generator 2/17, list without line ends, tuple, iterator, BufferedReader, "
        "unbuffered 'rb' file, whole bytes string 1/17 each; 35% strict=False; 15% no end of line after the last line; "
        "each document also parsed from the str source of the same family); "
        "BYTES DOCUMENTS WITH ONE LINE THAT IS NOT VALID UTF-8 (1..3, thorough 1..5 Files paragraphs + License paragraphs; ~85% of the "
        "patterns drawn from a pool of 30 with non-ASCII characters - 'docs/café/*' 'ünï/*.c' '中文/*' 'src/日本語/?.c' 'po/пер?вод.po' 'emoji/😀*' "
        "... ('?ber/*' is the one ASCII entry; every such list has at least one non-ASCII pattern) - 25% of the further patterns narrowing a pattern of an earlier paragraph; Files field one-line / continuation lines, "
        "first / last / in the middle of its paragraph, Comment field in front of or behind it, Copyright and License with 0..2 "
        "continuation lines, header with Upstream-Contact / Source / Comment / Disclaimer / Copyright / License at 30% each, all "
        "carrying author names; exactly one of those lines - never a Files line, never a License short name - encoded in one of 13 "
        "legacy encodings so that it is not valid UTF-8, position forced: same paragraph before the non-ASCII Files field 3/11, "
        "same paragraph behind it 2/11, earlier paragraph 2/11, later paragraph 2/11, header 1/11, any 1/11; 60% of the other author "
        "lines carry valid UTF-8 non-ASCII names; 16 bytes source kinds; 35% strict=False; 12% no end of line after the last line; 6 "
        "names per case: literal expansion 50%, one edit 20%, mojibake reading 20%, ASCII folding 10%; each document also parsed "
        "with the bad line made valid); "
        "DOCUMENTS QUOTING PGP ARMOR LINES ON CONTINUATION LINES (2..4, thorough 2..6 Files paragraphs + License paragraphs, 55% of the "
        "later lists overlapping an earlier one; 1 (25%: 2) quoted blocks - BEGIN SIGNATURE without END 3/15, with END 2/15, BEGIN "
        "SIGNED MESSAGE 3/15, whole clear-signed message 2/15, lone END 3/15, key block 2/15 - indented by ' ' 4/10, '  ' / '   ' / 8 "
        "blanks 4/10, a tab 2/10 (never in License texts), 1/3 with trailing blank / tab; host header 2/8 (Comment, Disclaimer, License, "
        "Copyright), Files paragraph 4/8 (85% not the last one; new Comment field first / last / between fields, License text, "
        "Copyright continuation), stand-alone License paragraph 2/8; 12% of the new fields quote the marker on the field line; 20 "
        "source kinds str and bytes; 40% strict=False; 12% no end of line after the last line; 5 near-miss names); "
        'histories of files re-assignments; BUILD HISTORIES through the public API '
        '(start: empty Copyright() or a parsed document with 0..4 Files paragraphs; 2..12 steps of add_files_paragraph / '
        'add_license_paragraph / files re-assignment, half of the added lists overlapping a list already in the document; '
        'query steps - paragraph order, find_files_paragraph for 3..7 near-miss names, dump()-then-parse agreement - after '
        'every step in 35% of the histories and after ~55% of the steps otherwise, always at the end; forced shapes: query '
        'on a document without Files paragraph then add then query, sole first Files paragraph + License paragraphs + '
        'overlapping add, runs of 2..3 adds, adds to parsed documents ending in License paragraphs); '
        'DOCUMENTS BUILT INCREMENTALLY WITH SHARED LICENSE SHORT NAMES (start: Copyright() 45% / a parsed document with 0..4 paragraphs, '
        'Files and stand-alone License paragraphs in any order, 9 source kinds, 25% strict=False; then 3..8, thorough 3..10, '
        'add_files_paragraph / add_license_paragraph calls; 2..3 short names per case out of 18 realistic ones (GPL-2+, Expat, '
        '"GPL-2+ or Expat", "GPL-2+ with OpenSSL exception", gpl-2+, ...) + fresh ones; the short name of each new paragraph chosen by '
        'relation to the document at that point - that of an earlier Files paragraph / of an earlier stand-alone License paragraph '
        '(the same License short name twice, 40% with the identical text) / of both / not in the document, weights 3 (Files add: 2) : 3 : '
        '2 : 2 among those available; shapes 2/7 License paragraphs before any Files paragraph then Files paragraphs under their short '
        'names, 2/7 Files -> License under its short name -> later Files under it -> the License short name again, 3/7 random; '
        '50% of the new pattern lists overlap an earlier one; 50% of the Files paragraphs sharing a short name also share the '
        'Copyright text; 30% carry the license text inline; 20% of the headers carry one of the short names; after the start and '
        'after EVERY add: the three listings, find_files_paragraph for 3..7 near-miss names, dump() - returned / to a file object - '
        'then parse with the default and with strict=False through 6 source kinds); '
        'PARSED DOCUMENTS WHOSE MULTI-LINE Files FIELD HAS CONTINUATION LINES LED IN BY A UNICODE BLANK OTHER THAN SPACE / TAB that is no '
        'str.splitlines() boundary (U+00A0, U+1680, U+2000..U+200A, U+202F, U+205F, U+3000): enumerated - every one of the 16 characters x '
        'lead shape (the character alone; blank then it; it then blank; tab then it; it then tab; it then a second Unicode blank; it then '
        'NBSP; for NBSP also the literal blank-then-NBSP / NBSP-then-blank) x str list / bytes list / StringIO / BytesIO, one seeded '
        'document each, spread over the shards; one fixed document x 22 source kinds x strict / strict=False; random share (1..4, '
        'thorough 1..6 Files paragraphs + License paragraphs; 25% realistic path globs, 55% of the later lists overlapping an earlier '
        'one; one paragraph forced + 45% of the others carry such lines: field line with 0..1 patterns, 1..2 patterns per '
        'continuation line, 1 / 2 / all continuation lines led in that way, 30% the last one; lead shape 6/14 the character alone, '
        'else one of the mixed shapes; Files field first / last / in the middle of its paragraph; 22 source kinds str and bytes incl. '
        'a whole str / bytes string; 35% strict=False; 12% no end of line after the last line; names: literal expansions of up to 5 '
        'patterns that stand ON such lines, 25% of them once more with the lead put in front, + 4 near misses); each document also parsed '
        'with those lines led in by ONE PLAIN SPACE (control), each such Files text also given to FilesParagraph() as a Deb822 mapping.  '
        'A (pattern list, name) evaluation is non-trivial when every pattern is legal, the list has '
        '>= 2 patterns or contains a wildcard, and the name is within edit distance 2 of a name the list matches '
        '(near miss or hit, not noise).')
ASSUMPTIONS = ['vp.models.globmatch is a faithful model of the copyright-format 1.0 glob dialect as restated in the property '
               '(two independent algorithms in it are compared on every evaluation; disagreement => inconclusive)',
               'domain: non-empty patterns (the empty glob is documented as "matches nothing" by the library while '
               'whole-name semantics would let it match the empty name: left outside the oracle); lists of >= 1 pattern',
               'an illegal escape anywhere in a paragraph\'s list must surface as MachineReadableFormatError from matches(); '
               'for find_files_paragraph over a document containing an illegal paragraph either that error or the correct '
               'last match with no illegal paragraph after it is accepted',
               'parsed documents with whitespace-only separator lines: domain = lines of blanks and tabs only (Policy 5.1 wording; no CR, '
               'FF, VT), standing BETWEEN paragraphs (never in front of the header, never after the last paragraph, never inside a '
               'field value), parsed with the default setting of Copyright() under which deb822 documents '
               '`whitespace-separates-paragraphs` = True; the document is then the same document as with empty separator lines and is '
               'judged like every parsed document (all_files_paragraphs() = the Files paragraphs written, identified by their unique '
               'Copyright id and pattern tuple; find_files_paragraph = last match / None; matches = glob model)',
               'whitespace-only separators, guards: (a) a disagreement of all_files_paragraphs() (or an exception from Copyright()) is '
               'reported only if the CONTROL document - same paragraphs, same source kind, every whitespace-only line replaced by an '
               'empty one - does show exactly what was written (key ...-at-whitespace-only-separator), or, failing that, if the '
               'SECOND control - same paragraphs, same source kind, same `strict`, exactly ONE empty line between paragraphs - does (key '
               '...-at-gap-of-several-separator-lines: paragraphs are "separated by empty lines" (Policy 5.1), the library documents that it '
               '"skips any blank lines at the beginning" of a paragraph, so a gap of several separator lines is taken to separate like one '
               'empty line and must not end the document); otherwise it is harness sanity (inconclusive / the ordinary '
               'unexpected-exception path), as for every other parsed document; (b) stand-alone License paragraphs that differ from what '
               'was written while the Files paragraphs agree change no resolution: counted as ws:note:* / ws_notes, never a violation '
               'of this property (a build history is then not driven from that start); (c) bytes sources are UTF-8, the default '
               'encoding of Copyright()',
               'Copyright(..., strict=False): the parameter is documented as "raise if format errors are detected"; the documents of this '
               'class are well formed apart from the whitespace-only separator lines, so the document is taken to be the same document as '
               'with strict=True (and as with empty separator lines).  Same guards as above; both control documents are parsed with '
               'strict=False as well, so anything strict=False does to EVERY document - also to the canonical one with one empty line '
               'between paragraphs - is harness sanity, not a finding, UNLESS that canonical document parsed with the default strict=True does '
               'show what was written: then strict=False itself changed what a well-formed document contains (key '
               '...-at-any-paragraph-separator/parsed-with-strict=False).  Warnings emitted '
               'during a non-strict parse are counted (ns:note:warning:*), never judged',
               'long pattern lists built through the API: domain = legal (4%: one illegal), non-empty, whitespace-free patterns of printable '
               'ASCII; no limit on the number of patterns or on the length of a pattern is documented, so none is assumed.  The property '
               'talks about matches() / find_files_paragraph, not about the `files` tuple or the dumped text: a `files` tuple that differs '
               'from the list given is NOT reported by itself - the patterns that differ are turned into names, judged like every other '
               'name, and only a wrong matches() / find_files_paragraph answer is a violation (its key then ends in '
               '/files-differs-from-the-list-given); a difference without any observed wrong answer is a note (long:note:*, long_notes). '
               'dump()-then-parse of the built document is judged the same way (as for build histories: through the resolution of names, '
               'not through field texts, which is C17); a dump that does not re-parse or re-parses to other Files paragraph ids is '
               'reported.  Oracle for this class: position-set matcher cross-checked on every evaluation against a '
               'single-backtrack-point matcher, and against the edit-distance DP where affordable (name length x total pattern length '
               '<= 1200; every 24th evaluation up to 20000); every name of the class is derived from a pattern of the case, so an '
               'evaluation counts as non-trivial when the list has >= 2 patterns or a wildcard',
               'patterns that start with \'.\' or \'/\' (\'./\', \'../\', \'...\'): the format gives them no special meaning - a pattern is '
               'matched against the whole name character by character, so \'./x\' matches exactly the name \'./x\' (not \'x\'), '
               '\'*\' matches \'.gitignore\', \'/abs/*\' does not match \'abs/a\'; nothing is normalised, neither in the pattern nor in '
               'the name.  Domain and guards as for the long lists (legal - 3%: one illegal -, non-empty, whitespace-free; a `files` '
               'tuple that differs from the list given is not a verdict by itself: the patterns that differ become names and only a '
               'wrong matches() / find_files_paragraph answer is reported, key suffix /files-differs-from-the-list-given; without an '
               'observed wrong answer it is a note, lead:note:* / lead_notes); the name \'\' (everything stripped) is in the domain, '
               'names with a newline are not generated in this class',
               'documents with comment lines: a comment line is a line whose FIRST character is \'#\' (Policy 5.1 "Lines starting with '
               'U+0023 (#), without any preceding whitespace, are comment lines ... These comment lines are ignored, even between two '
               'continuation lines. They do not end logical lines."; Deb822._skip_useless_lines: "Yields only lines that do not begin '
               'with \'#\'"; the iter_paragraphs docstring names "comments within paragraphs" as a feature of the native parser).  The '
               'document is therefore taken to be the document without those lines: a comment-only block between two separator lines '
               'leaves a gap of several separator lines (see above: separates like one), a comment between continuation lines leaves '
               'the field in one piece, comments after the last paragraph add nothing; \' #x\' and \'Files: #x\' carry the PATTERN '
               '\'#x\'.  Lines with CR, comments with bytes that are not UTF-8, comments inside PGP armour are outside the class',
               'documents with comment lines, guards: (a) the str parse is the control and is itself judged against what was written; '
               'if it does not show the Files paragraphs written, a violation is reported only when the SAME document without its '
               'comment lines, through the same kind of source and the same `strict`, does show them (key ...-at-comment-lines/'
               'str-source); otherwise harness sanity (inconclusive); the bytes parse is then not judged; (b) the bytes parse is judged '
               'only after the str parse of the same family (list of str for list of bytes, generator for generator, StringIO for '
               'BytesIO / BufferedReader, the file opened in text mode with encoding utf-8 for the file opened \'rb\') held completely; '
               'a bytes parse that does not show the Files paragraphs written is reported as ...-at-comment-lines/bytes-source when '
               'the bytes document without comment lines does show them, else as ...-in-bytes-document/bytes-source (bytes sources '
               'are documented: "encoding: Encoding to use, in case input is raw byte strings"); (c) Files paragraphs are identified '
               'by their unique Copyright id; a `files` tuple that differs from what was written is not a verdict by itself: the '
               'patterns that differ become names, and only a wrong matches() / find_files_paragraph answer is reported (key suffix '
               '/files-differs-from-what-was-written), else a note (cmt:note:*, cmt_notes); stand-alone License paragraphs that differ '
               'are a note; (d) a WHOLE str / bytes string is not a documented `sequence` ("Sequence of lines, e.g. a list of strings '
               'or a file-like object"): judged like the other sources only while the comment-free control through the same kind '
               'parses to what was written, otherwise counted (cmt:note:whole-string-source-not-judged) and never reported; (e) bytes '
               'are UTF-8, the default `encoding`; (f) with an illegal escape in the document str and bytes results are not compared '
               'name by name (either accepted outcome may occur)',
               'bytes documents with ONE line that is not valid UTF-8: Copyright() documents "encoding: Encoding to use, in case input is '
               'raw byte strings" (default utf-8) and nothing about lines that are not in that encoding; the unchanged tree decodes such a '
               'line by itself with an encoding guessed by chardet (importable here) after a UnicodeWarning and every other line as '
               'UTF-8.  Taken as the statement: what the bad line reads as is NOT judged (nor is a document that this tree rejects or '
               're-shapes because of that line alone); every OTHER line means what it means in the same document with the bad line '
               'made valid - in particular the Files fields: same Files paragraphs, files tuples, matches() answers, '
               'find_files_paragraph results.  Domain: the bad line is a Copyright / Comment / License-text / Disclaimer / '
               'Upstream-Contact / Source line (never Format, never a line of a Files field, never the line with a License short '
               'name), it contains no CR / LF bytes, exactly one line per document; patterns and names contain no character that '
               'str.split() takes for whitespace (no U+00A0, U+3000, U+0085, U+2028)',
               'one undecodable line, guards: (a) the control (all lines UTF-8) is judged first against what was written; if it does not '
               'show the Files paragraphs written a violation is reported only when the str parse of the same text (source of the same '
               'family) does (key ...-in-utf-8-bytes-document/bytes-source), else harness sanity (inconclusive); (b) the document with '
               'the bad line is judged only after the control held completely; if it is rejected or shows other Files paragraphs, a '
               'SECOND control decides: the same document with every OTHER line made ASCII (non-ASCII characters replaced by x) and the '
               'bad line kept - if that one shows the (asciified) paragraphs written, the bad line by itself is harmless and the '
               'difference comes from how the OTHER lines were decoded: violation (key ...-in-document-with-one-undecodable-line); if '
               'not, the bad line alone changes the document on this tree: counted (enc:note:*, enc_notes), never reported; (c) Files '
               'paragraphs are identified by the first token of their Copyright field, except the paragraph whose Copyright LINE is the '
               'bad line (position only); a files tuple that differs is not a verdict by itself (the patterns that differ become names; '
               'key suffix /files-differs-from-what-was-written; without an observed wrong answer a note); (d) warnings of the decoder '
               'are recorded and counted (enc:note:warning:UnicodeWarning), never judged; the filters of the process (warnings-as-errors '
               'shards) stay in force for every other category',
               'documents quoting PGP armor lines: RFC 4880 armor header lines start in column 0; Deb822 documents "PGP signatures, if '
               'present, will be stripped" and split_gpg_and_payload matches ^-----(BEGIN|END) PGP ..-----; a continuation line starts '
               'with a blank or a tab (Policy 5.1), so \' -----BEGIN PGP SIGNATURE-----\' inside a Comment / License / Copyright / '
               'Disclaimer text is TEXT (copyright-format 1.0 License texts quote whole licenses verbatim, one leading blank added), and '
               'so is \'Comment: -----BEGIN PGP SIGNATURE-----\' (the marker is not in column 0).  The document is therefore the document '
               'written: every paragraph is there.  Guards: a document that does not show the Files paragraphs written (or is rejected) '
               'is reported only if the CONTROL - the same document, same source kind, same `strict`, with the ----- of the quoted '
               'marker lines replaced by ===== - does show them (key ...-behind-quoted-pgp-armor-line/{str,bytes}-source), else harness '
               'sanity (inconclusive); stand-alone License paragraphs that differ are a note; files tuples as above; License texts '
               'are not led in by tabs (the library reports a tab-led License text line as a format error when the license is read - '
               'outside this property); documents with a marker in column 0 (really signed files) are outside the class',
               'names are str; patterns containing whitespace are only reachable through globs_to_re and are observed '
               'through the real FilesParagraph.matches of a subclass overriding the `files` property',
               'build histories: "the last Files paragraph of the document as it is now" is read off an independent model of '
               'the document in which add_files_paragraph puts the new paragraph directly after the last Files paragraph (its '
               'docstring) and add_license_paragraph at the end; the order all_files_paragraphs() / all_paragraphs() / '
               'dump()-then-parse show must be that order (a different order of the FILES paragraphs changes which paragraph a '
               'name resolves to and is reported; the case then stops)',
               'build histories, guards: (a) where the first Files paragraph goes in a document that so far has only stand-alone '
               'License paragraphs is not documented - the model adopts what the library did; (b) a new Files paragraph in the '
               'documented place among the Files paragraphs but elsewhere relative to stand-alone License paragraphs does not '
               'change any resolution: counted as build:note:* and shown in build_notes, never a violation of this property; '
               '(c) the paragraph returned by find_files_paragraph is identified by identity, else by the unique Copyright id '
               '(identity is not demanded); (d) the re-parsed dump is judged only through find_files_paragraph (same '
               'paragraph as the live document and as the model), not by comparing field texts (that is C17); with an illegal '
               'escape anywhere in the document live and re-parsed answers are not compared (either accepted outcome may occur); '
               '(e) inside one history a (paragraph, pattern list, name) triple is judged through matches() once, later steps '
               'observe it through find_files_paragraph only',
               'incremental builds with shared license short names: the format lets any number of Files paragraphs name one license '
               'short name and defines a stand-alone License paragraph as the place where the text of such a short name stands; '
               'Copyright documents "a list of additional Files or License paragraphs", add_files_paragraph "Adds a FilesParagraph ... '
               'inserted directly after the last FilesParagraph", add_license_paragraph "Adds a LicenceParagraph ... inserted after '
               'any other paragraphs", all_files_paragraphs / all_license_paragraphs "an iterator over the contained" paragraphs - '
               'nothing makes an add conditional on License fields, so an add is taken to add exactly the paragraph given and to '
               'leave every other paragraph in the document, in its place; "the last Files paragraph in the document that matches" '
               '(the property) ranges over ALL Files paragraphs added or parsed so far.  Two stand-alone License paragraphs under '
               'one short name (even with the identical text) are accepted by the library on the unchanged tree, through the API and '
               'through the parser, strict and non-strict; whether such a document is good style is not judged',
               'incremental builds, guards: (a) paragraphs are identified by the unique id in their Comment field, never by identity '
               '(not demanded), Copyright or License text (shared on purpose); (b) what is demanded after an add: every id listed '
               'before is still listed, in the same relative order, the new id exactly once, no files tuple changed, a new Files '
               'paragraph behind every earlier FILES paragraph, all_files_paragraphs() / all_license_paragraphs() = the Files / License '
               'paragraphs of all_paragraphs() in its order, header first.  NOT demanded (counted as incr:note:*, shown in '
               'incr_notes, the model adopts what the library did): where a new Files paragraph stands relative to stand-alone '
               'License paragraphs, where the first Files paragraph of a License-only document goes, a License paragraph that is '
               'not put at the very end, a changed License / Copyright TEXT of a paragraph (no resolution depends on them); '
               '(c) a parsed start that does not show what was written (or is rejected) is reported only if the CONTROL document - '
               'same paragraphs, same source kind, same `strict`, every license short name made unique - does parse to what was '
               'written (key ...-with-shared-license-short-name-...); otherwise harness sanity (inconclusive / the ordinary '
               'unexpected-exception path) as for every parsed document; (d) dump()-then-parse is compared with the LIVE listing just '
               'judged: same Files paragraphs (id and files tuple - patterns of this class are short and whitespace-free, so the '
               'tuple has one spelling), same License paragraph ids, same find_files_paragraph result per name as the live document '
               'and the model; License / Copyright texts and the position relative to License paragraphs are notes (texts are C17); '
               'the strict=False parse is judged like the default one and gets the key suffix /parsed-with-strict=False when the '
               'default parse of the same text held; with an illegal escape in the document (3% of the cases) re-parsed and live '
               'answers are not compared; (e) FilesParagraph.create() not returning the list given is harness sanity here (judged '
               'by the other classes); (f) the case stops at its first violation',
               'continuation lines of a Files field led in by a Unicode blank other than space / tab (kind ubl): (a) the statement does '
               'not say which characters lead in a continuation line; the class judges what the UNCHANGED tree does (probed before the '
               'class was added, all 16 characters x 6 lead shapes x 7 source kinds x strict / strict=False): such a line IS a '
               'continuation line (Deb822._multidata starts with \\s on the DECODED line), its patterns belong to the field, and the '
               'leading blank(s) are NOT part of the first pattern (str.split() of the field text) - the model is the list of patterns '
               'written, without any lead; the same Files text given as a Deb822 mapping yields the same tuple; (b) only characters that '
               'are White_Space AND no str.splitlines() boundary are used (U+0085, U+2028, U+2029, FS/GS/RS/US would split the line for '
               'some source kinds: outside this class), never a line that consists of such blanks only, never such a blank BETWEEN two '
               'patterns or behind the last one, never in front of a field name; (c) the CONTROL document (those lines led in by one plain '
               'space; same source kind, same `strict`, same end-of-line choice) must parse to exactly what was written, otherwise the '
               'case is inconclusive and nothing is accused; (d) a document that is rejected / shows other Files paragraphs is reported '
               'with the key ...-at-continuation-line-led-by-unicode-blank; a files tuple that differs from what was written is not a '
               'verdict by itself: the patterns that differ are turned into names and matches() / find_files_paragraph decide (key suffix '
               '/files-differs-from-what-was-written), otherwise a note; (e) the mapping form is judged through matches() only '
               '(M.ubl.map: FilesParagraph(Deb822({Files: text as written, ..}))); a mapping that does not ACCEPT the text (ValueError of '
               'validate_input, format error) is a note, not a violation - what a mapping accepts is not the statement\'s subject; '
               '(f) names that start with the lead itself are judged by the same model (a pattern list without leads does not match them '
               'unless a wildcard does)']
ANCHORS = ['debian.copyright:globs_to_re',
           'debian.copyright:FilesParagraph.files_pattern',
           'debian.copyright:FilesParagraph.matches',
           'debian.copyright:Copyright.find_files_paragraph']
MUST_REACH = list(ANCHORS)

FORMAT = 'https://www.debian.org/doc/packaging-manuals/copyright-format/1.0/'

# ---------------------------------------------------------------------------
# workload sizes (TOTAL cases over all shards)

SIZES = {
    'para': (56000, 2600000),      # x ~6 names
    'hist': (10800, 480000),       # x ~8 ops
    'doc': (8000, 360000),          # x ~5 names x ~3 paragraphs
    'raw': (10000, 400000),        # x ~5 names
    'wsdoc': (3600, 150000),       # x ~5 names x ~3 paragraphs; paragraphs separated by whitespace-only lines
    'build': (4300, 150000),       # x ~5 query steps x ~6 names x ~3 paragraphs, + one dump-then-parse per query step
    'nsdoc': (1400, 42000),        # whitespace-only separator runs of 2..4 lines, Copyright(..., strict=False)
    'long': (840, 28000),          # built paragraphs with LONG pattern lists: x ~20 names x ~3 paragraphs x 2..3 stages
    'lead': (700, 22000),          # built paragraphs whose patterns START with '.' or '/': x ~14 names x ~3 paragraphs x 2..3 stages
    'cmt': (1600, 60000),          # BYTES documents with '#' comment lines + the same document as str: x ~6 names x ~3 paragraphs x 2
    'incr': (700, 24000),         # documents built incrementally with SHARED license short names: x ~6 adds x (listing + ~6 names + 2 re-parses)
    'enc': (700, 21000),          # BYTES documents with ONE line that is not valid UTF-8 + the same document with that line valid: x ~6 names x ~3 paragraphs x 2
    'pgp': (800, 24000),          # documents quoting PGP armor lines on continuation lines: x ~5 names x ~3 paragraphs
    'ubl': (640, 20000),          # parsed documents whose Files continuation lines are led in by a Unicode blank + control parse + mapping: x ~7 names x ~3 paragraphs
}

LIT = ['a', 'a', 'a', 'b', 'b', 'c', 'A', '/', '/', '.']
META = ['(', ')', '[', ']', '+', '|', '^', '$', '{', '}', '-']
META_WIDE = META + [',', '~', '=', '!', '@', '%', '&', '<', '>', '"', "'", ';', '0', 'Z', '_', 'é', '中']
WILD = ['*', '*', '?']
ESC = ['\\\\', '\\*', '\\?']
BADESC = ['\\.', '\\a', '\\/', '\\n', '\\[', '\\(', '\\-']
WS = [' ', ' ', '\n', '\t']
TEMPLATES = ['*', '*', 'debian/*', '*.c', 'a/*', '*/a', 'a/b', 'a/?', 'a.b', 'a*', '?', 'a', 'b/*.a', '*a*', 'a/b.c',
             'src/*', 'debian/rules', '\\*', 'a\\?', '??', '*/*']

REAL_POOL = ['*', 'debian/*', 'debian/rules', 'setup.py', 'lib/debian/changelog.py', 'lib/debian/tests/test_*.py',
             'examples/changelog/*', 'lib/debian/_arch_table.py', '*.po', 'docs/?.rst', 'docs/*.rst', 'src/*/Makefile.in',
             'README', 'README.*', 'lib/deb822.py', 'lib/debian/deb822.py', 'po/??.po', 'data/\\*', 'what\\?.txt', 'a\\\\b/*']

NAME_ALPHA = ['a', 'a', 'a', 'b', 'b', 'c', 'A', 'B', '/', '/', '.', '*', '?', '\\', '\n', '(', '[', '+', '|', '^', '$', ' ', '-']


def gen_pattern(r, wide, raw=False, illegal_ok=True):
    k = r.random()
    if k < 0.18:
        return r.choice(TEMPLATES)
    n = r.choice((1, 2, 2, 3, 3, 4, 5)) if not wide else r.choice((1, 2, 3, 3, 4, 5, 6, 7))
    out = []
    for i in range(n):
        k = r.random()
        if raw and k < 0.16:
            out.append(r.choice(WS))
        elif k < 0.58:
            out.append(r.choice(LIT))
        elif k < 0.80:
            out.append(r.choice(WILD))
        elif k < 0.90:
            out.append(r.choice(META_WIDE if wide else META))
        elif k < 0.975 or not illegal_ok:
            out.append(r.choice(ESC))
        elif k < 0.992:
            if raw and r.random() < 0.3:
                out.append(r.choice(['\\ ', '\\\n', '\\\t']))
            else:
                out.append(r.choice(BADESC))
        elif i == n - 1:
            out.append('\\')            # lone backslash at the very end
        else:
            out.append(r.choice(LIT))
    return ''.join(out)


def gen_list(r, wide, raw=False, illegal_ok=True):
    n = r.choice((1, 2, 2, 2, 3)) if not wide else r.choice((1, 2, 2, 3, 3, 4))
    pats = [gen_pattern(r, wide, raw, illegal_ok) for _ in range(n)]
    if n >= 2 and r.random() < 0.2:
        # related alternatives: one is an extension / truncation of another
        base = pats[0]
        if G.is_legal(base) and not base.endswith('\\'):
            pats[r.randrange(1, n)] = base + r.choice(['.c', '/a', 'b', '*', '?', '.'])
    return pats


def mutate_same_length(r, pats):
    """Another pattern list whose joined text has the same length (changes one
    character of one pattern, keeping it legal if possible)."""
    pats = list(pats)
    for _ in range(8):
        i = r.randrange(len(pats))
        p = pats[i]
        j = r.randrange(len(p))
        if p[j] in '\\*?' or (j and p[j - 1] == '\\'):
            continue
        c = r.choice(['a', 'b', 'c', '/', '.'])
        if c == p[j]:
            continue
        pats[i] = p[:j] + c + p[j + 1:]
        return pats
    return [p[::-1] if G.is_legal(p[::-1]) and p[::-1] != p else p + 'b' for p in pats]


def edit(r, s):
    k = r.random()
    if k < 0.22 or not s:
        return s + r.choice(NAME_ALPHA)                 # append: the over-long name
    if k < 0.45:
        i = r.randrange(len(s) + 1)
        return s[:i] + r.choice(NAME_ALPHA) + s[i:]
    if k < 0.75:
        i = r.randrange(len(s))
        return s[:i] + s[i + 1:]
    i = r.randrange(len(s))
    return s[:i] + r.choice(NAME_ALPHA) + s[i + 1:]


def gen_names(r, lists, k):
    """k names near the languages of the given GlobLists."""
    toks = [t for gl in lists for t in gl.toks if t is not None]
    names = []
    for _ in range(k):
        x = r.random()
        if not toks or x < 0.12:
            names.append(''.join(r.choice(NAME_ALPHA) for _ in range(r.choice((0, 1, 2, 3, 4, 5, 6)))))
            continue
        s = G.expand(r.choice(toks), r, NAME_ALPHA)
        for _ in range(r.choice((0, 0, 1, 1, 1, 2, 2))):
            s = edit(r, s)
        names.append(s)
    return names


# ---------------------------------------------------------------------------
# whitespace-only paragraph separators (kind 'doc' with 'seps'; parsed starts of kind 'build')

# line bodies (no end of line) of whitespace-only separator lines: blanks and tabs only (Policy 5.1: "lines consisting
# solely of spaces and tabs"); '' is the ordinary empty separator line
WS_LINES = [' ', ' ', '\t', '\t', '  \t', '  \t', '  ', ' \t', '\t ', '    ', '\t\t', ' \t \t ']
# how a separator run is composed; w / v stand for whitespace-only lines drawn from WS_LINES
WS_RUNS = ['w', 'w', 'w', 'w', 'we', 'ew', 'wv', 'ewe', 'wev', 'eww', 'wee']
# sources a parsed document is handed to Copyright() as
WS_MODES = ['parse', 'parse', 'parse-file', 'parse-file', 'parse-noeol', 'parse-bytes', 'parse-bytesio', 'parse-disk',
            'parse-disk-rb']


def is_ws_line(body):
    return body != '' and body.strip(' \t') == ''


def gen_run(r):
    return [('' if ch == 'e' else r.choice(WS_LINES)) for ch in r.choice(WS_RUNS)]


def gen_seps(r, n, p_ws):
    """One separator run per paragraph (the run stands in front of it); at least one run of the document contains a
    whitespace-only line."""
    seps = [gen_run(r) if r.random() < p_ws else [''] for _ in range(n)]
    if n and not any(is_ws_line(l) for run in seps for l in run):
        seps[r.randrange(n)] = gen_run(r)
    return seps


def gen_wsdoc_case(r, wide):
    """A parsed document whose paragraphs are separated by whitespace-only lines mixed with empty ones.  Forced
    adjacencies (each in front of / behind a whitespace-only run): header/Files, Files/Files, Files/License,
    License/Files; Files fields first, last and in the middle of their paragraph; one-line and continuation-line
    Files values; License paragraphs ending in a continuation line."""
    nf = r.choice((1, 2, 2, 3, 3, 4)) if not wide else r.choice((1, 2, 3, 3, 4, 5, 6))
    illegal_ok = r.random() < 0.05
    realistic = r.random() < 0.15
    shape = r.choice(('header-files', 'files-files', 'files-license-files', 'license-first', 'random', 'random'))
    paras, lists = [], []

    def files(j):
        legal = [gl for gl in lists if gl.legal]
        if j == 0 and r.random() < 0.35:
            pats = ['*']
        elif realistic:
            pats = r.sample(REAL_POOL, r.choice((1, 2, 3, 4)))
        elif legal and r.random() < 0.3:
            pats = overlapping_list(r, r.choice(legal), wide)[0]
        else:
            pats = gen_list(r, wide, illegal_ok=illegal_ok)
        paras.append({'F': pats, 'sep': r.choice((0, 0, 1, 2)), 'fo': r.choice((0, 0, 1, 1, 2))})
        lists.append(G.GlobList(pats))

    if shape == 'license-first':
        paras.append({'L': 1})
    for j in range(nf):
        if shape == 'random' and r.random() < 0.3:
            paras.append({'L': 1})
        files(j)
        if shape == 'files-license-files' and j < nf - 1:
            paras.append({'L': 1})
    if shape == 'files-files' and nf == 1:
        files(1)
    if shape == 'files-license-files' and nf == 1:
        paras.append({'L': 1})
        files(1)
    if r.random() < 0.3:
        paras.append({'L': 1})
    seps = gen_seps(r, len(paras), 0.7)
    return {'kind': 'doc', 'mode': r.choice(WS_MODES), 'paras': paras, 'seps': seps, 'names': gen_names(r, lists, 5)}


def gen_nsdoc_case(r, wide):
    """A document with whitespace-only separator lines (as gen_wsdoc_case) handed to Copyright(..., strict=False); the
    gaps between paragraphs are made of SEVERAL separator lines more often (NS_RUNS: 2..4 lines, empty line followed by
    a blank / tab line and vice versa)."""
    case = gen_wsdoc_case(r, wide)
    n = len(case['paras'])
    seps = [([('' if ch == 'e' else r.choice(NS_LINES)) for ch in r.choice(NS_RUNS)] if r.random() < 0.75 else [''])
            for _ in range(n)]
    if not any(is_ws_line(l) for run in seps for l in run):
        seps[r.randrange(n)] = [('' if ch == 'e' else r.choice(NS_LINES)) for ch in r.choice(NS_RUNS[:6])]
    case['seps'] = seps
    case['strict'] = False
    return case


# whitespace-only lines / separator runs of the NON-STRICT class: the single blank and the single tab dominate
NS_LINES = [' ', ' ', ' ', '\t', '\t', '\t', '  ', ' \t', '\t ', '  \t']
NS_RUNS = ['ew', 'we', 'ew', 'we', 'ewe', 'wew', 'eew', 'wee', 'eww', 'wwe', 'ewew', 'wewe', 'eewe', 'w', 'wv']


# ---------------------------------------------------------------------------
# LONG pattern lists in paragraphs BUILT through the API (kind 'long')

LONG_WORDS = ['fix', 'foo', 'bar', 'baz', 'build', 'typo', 'man', 'page', 'CVE', '2024', '1234', '0001', 'upstream', 'hurd',
              'kfreebsd', 'ftbfs', 'gcc', '13', 'no', 'rpath', 'use', 'system', 'libs', 'spelling', 'reproducible', 'cross',
              'arm64', 'x32', 'test', 'suite', 'timeout', 'py3', 'a', 'b', 'Z', 'non', 'free', 'drop', 'embedded', 'copy']
LONG_DIRS = ['debian/patches/', 'debian/patches/', 'debian/patches/', 'debian/patches/debian-changes/', 'src/third-party/',
             'vendor/github.com/foo-bar/baz-qux/', 'lib/python3/dist-packages/', 'po/', 'docs/user-guide/', '', '']
LONG_EXT = ['.patch', '.patch', '.patch', '.diff', '.c', '.h', '.py', '.po', '.rst', '', '.in']
LONG_WILD = ['*', '*', '?', '??', '*.', '-*', '?-', '*-*', '/*/', '*/']
LONG_ESC = ['\\*', '\\?', '\\\\']
LONG_ODD = [',', ';', '+', '_', '.', '~', '=', ':', '--', '-.-', '(1)', '[x]']
# text widths a re-flowing implementation is likely to use (with / without the 'Files: ' prefix in front)
LONG_WIDTHS = (70, 72, 75, 76, 78, 79, 80)


def gen_long_pattern(r, uid, style=None):
    """One realistic pattern; every pattern of a case carries a distinct number so that the literal names are unique."""
    uid[0] += 1
    n = uid[0]
    style = style or r.choice(('hyph', 'hyph', 'hyph', 'hyph', 'wild', 'wild', 'esc', 'odd', 'plain'))
    d = r.choice(LONG_DIRS)
    words = [r.choice(LONG_WORDS) for _ in range(r.choice((2, 3, 3, 4, 5, 6)))]
    if style == 'hyph':          # quilt patch names and the like: literal, several hyphens
        words.insert(r.randrange(len(words) + 1), str(n))
        return d + '-'.join(words) + r.choice(LONG_EXT)
    if style == 'wild':          # hyphens next to wildcards
        words.insert(r.randrange(len(words) + 1), str(n))
        k = r.randrange(len(words) + 1)
        words.insert(k, r.choice(LONG_WILD))
        return d + '-'.join(words) + r.choice(LONG_EXT + ['*', '.?', '-*'])
    if style == 'esc':
        words.insert(r.randrange(len(words) + 1), str(n))
        words.insert(r.randrange(len(words) + 1), r.choice(LONG_ESC) + r.choice(LONG_WORDS))
        return d + '-'.join(words) + r.choice(LONG_EXT)
    if style == 'odd':
        words.insert(r.randrange(len(words) + 1), str(n))
        out = words[0]
        for w in words[1:]:
            out += r.choice(LONG_ODD + ['-', '-']) + w
        return d + out + r.choice(LONG_EXT)
    # plain: no hyphen at all
    return (d.replace('-', '_') + '_'.join(words) + str(n) + r.choice(LONG_EXT)).replace('-', '_')


def gen_huge_pattern(r, uid, length):
    """A SINGLE pattern of about `length` (100..600) characters."""
    uid[0] += 1
    style = r.choice(('path-hyph', 'path-hyph', 'path-wild', 'word', 'word-hyph', 'word-wild'))
    if style.startswith('path'):
        out = 'deep%d' % uid[0]
        while len(out) < length:
            comp = '-'.join(r.choice(LONG_WORDS) for _ in range(r.choice((1, 2, 3, 4))))
            if style == 'path-wild' and r.random() < 0.2:
                comp += r.choice(('*', '?', '-*', '-?'))
            out += '/' + comp
        return out + r.choice(LONG_EXT)
    # one unbroken "word": nothing but the hard width limit could make an implementation cut it
    out = 'w%d' % uid[0]
    while len(out) < length:
        out += r.choice(LONG_WORDS)
        k = r.random()
        if style == 'word-hyph' and k < 0.25:
            out += '-'
        elif style == 'word-wild' and k < 0.08:
            out += r.choice(('*', '?'))
    return out


def gen_long_list(r, uid, wide):
    """(patterns, shape).  Joined length far beyond one text line for 'many' / 'huge' / 'mixed'; 'boundary' lists have a
    joined length of exactly 72..88 characters (around the usual wrapping widths)."""
    shape = r.choice(('many', 'many', 'many', 'many', 'huge', 'mixed', 'boundary'))
    if shape == 'boundary':
        target = r.choice((72, 73, 75, 76, 77, 78, 79, 80, 81, 82, 86, 88))
        pats = [gen_long_pattern(r, uid)]
        while len(' '.join(pats)) < target - 30:
            pats.append(gen_long_pattern(r, uid))
        rest = target - len(' '.join(pats)) - 1
        if rest >= 8:
            uid[0] += 1
            tail = 'debian/t-%d-' % uid[0]
            if len(tail) < rest:
                pats.append(tail + 'x' * (rest - len(tail)))
        return pats, shape
    target = r.choice((100, 120, 160, 200, 240, 300, 360, 450, 600)) if not wide else r.randrange(100, 620)
    if shape == 'huge':
        pats = [gen_huge_pattern(r, uid, target)]
        for _ in range(r.choice((0, 0, 1, 2))):
            pats.insert(r.randrange(len(pats) + 1), gen_long_pattern(r, uid))
        return pats, shape
    pats = []
    if shape == 'mixed':
        pats.append(gen_huge_pattern(r, uid, r.choice((100, 130, 180, 260))))
    style = r.choice((None, None, 'hyph', 'hyph', 'wild'))       # None: styles mixed within the list
    while len(' '.join(pats)) < target:
        pats.insert(r.randrange(len(pats) + 1), gen_long_pattern(r, uid, style))
    return pats, shape


def _hyphen_splits(pat):
    """Positions directly behind a '-' that has something on both sides."""
    return [i + 1 for i, ch in enumerate(pat) if ch == '-' and 0 < i < len(pat) - 1]


def _literal_name(r, pat):
    """A literal expansion of the pattern text (None if the text is not a legal glob)."""
    try:
        return G.expand(G.parse(pat), r, LIT)
    except G.IllegalEscape:
        return None


def long_names(r, lists, budget):
    """Names named by the patterns of LONG lists: the whole patterns (literal expansions - for a wildcard-free pattern the
    name equal to the pattern itself), the pieces a re-flowing implementation would cut them into (at a hyphen; at a
    column 70..80 of the joined text / of the single pattern), neighbours glued together, and single-character edits.
    Returns [(name, class), ...]."""
    out, seen = [], set()

    def add(name, cls):
        if name is not None and name not in seen:
            seen.add(name)
            out.append((name, cls))

    order = list(range(len(lists)))
    r.shuffle(order)
    per = max(3, budget // max(1, len(lists)))
    for li in order:
        pats = lists[li]
        # patterns that straddle a wrapping column of the joined text come first, then hyphenated ones, then the rest
        offs, pos = [], 0
        for p in pats:
            offs.append((pos, pos + len(p)))
            pos += len(p) + 1
        straddle = [k for k, (a, b) in enumerate(offs)
                    if any((a + pre) // w != (b + pre) // w for w in LONG_WIDTHS for pre in (0, 7))]
        rest = [k for k in range(len(pats)) if k not in straddle]
        r.shuffle(straddle)
        r.shuffle(rest)
        rest.sort(key=lambda k: '-' not in pats[k])
        chosen = (straddle + rest)[:per]
        for k in chosen:
            p = pats[k]
            whole = _literal_name(r, p)
            cls = 'whole-hyphenated-pattern' if '-' in p else 'whole-pattern'
            if len(p) >= 100:
                cls = 'whole-single-long-pattern'
            add(whole, cls)
        for k in chosen[:max(2, per // 2)]:
            p = pats[k]
            cuts = _hyphen_splits(p)
            if cuts:
                c = r.choice(cuts)
                add(_literal_name(r, p[:c]), 'hyphen-fragment')
                add(_literal_name(r, p[c:]), 'hyphen-fragment')
                if r.random() < 0.3:
                    add(_literal_name(r, p[:c - 1]), 'hyphen-fragment')
            if len(p) > 90:
                c = r.choice(LONG_WIDTHS) - r.choice((0, 0, 7, 1))
                add(_literal_name(r, p[:c]), 'width-fragment')
                add(_literal_name(r, p[c:]), 'width-fragment')
        if len(pats) >= 2:
            k = r.randrange(len(pats) - 1)
            a, b = _literal_name(r, pats[k]), _literal_name(r, pats[k + 1])
            if a is not None and b is not None:
                add(a + b, 'glued-neighbours')
                if r.random() < 0.5:
                    add(a + ' ' + b, 'glued-neighbours')
        if chosen:
            whole = _literal_name(r, pats[chosen[0]])
            if whole:
                add(edit(r, whole), 'edited')
    return out


def mutate_tail(r, pats):
    """The same list with one character changed in a pattern that lies BEHIND the first text line (joined offset >= 90 if
    there is one, else the last pattern); same joined length.  Returns (new list, index changed)."""
    pos, late = 0, []
    for k, p in enumerate(pats):
        if pos >= 90 or pos + len(p) >= 120:
            late.append(k)
        pos += len(p) + 1
    k = r.choice(late) if late else len(pats) - 1
    p = pats[k]
    idx = [i for i in range(len(p) // 2, len(p)) if p[i] not in '\\*?' and (i == 0 or p[i - 1] != '\\')]
    if not idx:
        return None, None
    i = r.choice(idx)
    c = r.choice([x for x in 'qvxk' if x != p[i]])
    out = list(pats)
    out[k] = p[:i] + c + p[i + 1:]
    if out[k] in pats:
        return None, None
    return out, k


def gen_long_case(r, wide):
    nf = r.choice((1, 2, 2, 3)) if not wide else r.choice((1, 2, 2, 3, 3, 4))
    uid = [0]
    paras, lists, shapes = [], [], []
    if r.random() < 0.3:
        paras.append({'F': [r.choice(('*', '*', 'debian/*', 'debian/patches/*'))], 'via': 'create'})
        lists.append(paras[-1]['F'])
    for j in range(nf):
        if r.random() < 0.25:
            paras.append({'L': 1})
        pats, shape = gen_long_list(r, uid, wide)
        long_before = [l for l in lists if len(' '.join(l)) >= 60]
        if long_before and r.random() < 0.6:
            # overlap: a later paragraph names some of an earlier paragraph's patterns again (the LAST one must win)
            prev = r.choice(long_before)
            for p in r.sample(prev, min(len(prev), r.choice((1, 1, 2, 3)))):
                if p not in pats and shape != 'boundary':
                    pats.insert(r.randrange(len(pats) + 1), p)
        via = r.choice(('create', 'create', 'assign', 'assign-in-doc'))
        ent = {'F': pats, 'via': via}
        if r.random() < 0.25:
            ent['seq'] = 'tuple'          # handed over as a tuple (what the `files` getter itself returns), else a list
        if via != 'create':
            ent['first'] = r.choice((['placeholder'], ['*'], pats[:1], [gen_long_pattern(r, uid)]))
        paras.append(ent)
        lists.append(pats)
        shapes.append(shape)
    if r.random() < 0.04:
        # an illegal escape somewhere in a long list
        k = r.randrange(len(lists))
        uid[0] += 1
        lists[k].insert(r.randrange(len(lists[k]) + 1), 'debian/patches/fix-%d-\\d-foo.patch' % uid[0])
    if r.random() < 0.3:
        paras.append({'L': 1})
    named = long_names(r, [l for l in lists if G.GlobList(l).legal], 12 if not wide else 16)
    case = {'kind': 'long', 'paras': paras, 'names': [n for n, _ in named], 'ncls': [c for _, c in named],
            'dump': r.choice(('return', 'file')),
            'reparse': r.choice(('parse', 'parse', 'parse-file', 'parse-noeol', 'parse-bytes', 'parse-bytesio', 'parse-disk'))}
    if r.random() < 0.3:
        case['strict'] = False
    if r.random() < 0.45:
        fidx = [i for i, p in enumerate(paras) if 'F' in p and len(' '.join(p['F'])) >= 60]
        if fidx:
            i = r.choice(fidx)
            newp, k = mutate_tail(r, paras[i]['F'])
            if newp is not None and G.GlobList(paras[i]['F']).legal:
                case['reassign'] = [sum(1 for p in paras[:i] if 'F' in p), newp]
                for nm in (_literal_name(r, paras[i]['F'][k]), _literal_name(r, newp[k])):
                    if nm is not None and nm not in case['names']:
                        case['names'].append(nm)
                        case['ncls'].append('changed-by-reassignment')
    return case


# ---------------------------------------------------------------------------
# patterns that START with '.' or '/' in paragraphs BUILT through the API (kind 'long' with cls == 'lead')

LEAD_FIXED = ['.gitignore', '.github/*', '../shared/?.h', './x', '/abs/*', '...', '.', '..', './', '../', '/', './*', '../*', '.*',
              '/*', '.?', './.hidden', '.?*', '..?', '.travis.yml', '.pc/*', '.git*', './debian/*', '/usr/share/doc/*',
              '../../include/*.h', '.../*', './/x', '/./x', '.\\*', './\\?x', '/\\\\x', '.config/*/settings.?',
              '.DS_Store', '.git/*', '.gitattributes', '.editorconfig', '.clang-format', '.hg*', '.svn/*', '/etc/*', './configure',
              './debian/rules', '../*.orig.tar.*', '.mailmap', '/usr/lib/*/pkgconfig/?*.pc', './.', '/..', '.a']
LEAD_PREFIX = ['.', '.', '.', './', './', './', '/', '/', '/', '../', '../', '..', '...', '.../', '../../', '/./', '//', '././',
               './.', '/.', '../.', './/', '/../']
LEAD_BODY = ['gitignore', 'github/*', 'shared/?.h', 'x', 'x', 'abs/*', 'git*', 'pc/*', 'travis.yml', 'config/*/settings.?',
             'usr/share/doc/*', 'debian/*', 'include/*.h', '*', '?', '*.c', 'a', 'a/b', 'hidden/.inner', 'x.', 'x/.', 'x/..',
             '\\*', '\\?x', 'a\\\\b', 'src/*/Makefile.in', 'debian/rules', 'a-b', '(x)', '[x]', 'x+', 'README', '',
             'DS_Store', 'git/*', 'gitattributes', 'configure', 'etc/*', 'ab', 'abc', 'Makefile', 'lib/.libs/*']


def lead_class(p):
    """Which leading characters a pattern / a name starts with."""
    for pre in ('../', './', '...', '..', '.', '//', '/'):
        if p.startswith(pre):
            return pre
    return 'other'


def gen_lead_pattern(r):
    if r.random() < 0.35:
        return r.choice(LEAD_FIXED)
    return r.choice(LEAD_PREFIX) + r.choice(LEAD_BODY)


def lead_strip_variants(s):
    """What `s` becomes when an implementation "normalises" its leading characters (each differs from s)."""
    import posixpath
    out = [s.lstrip('./'), s.lstrip('.'), s.lstrip('/'), s[1:], s.strip('./'), posixpath.basename(s)]
    for pre in ('./', '../', '/', '.', '..', '...'):
        if s.startswith(pre):
            out.append(s[len(pre):])
    if s:
        out.append(posixpath.normpath(s))
        out.append(posixpath.normpath('/' + s))
        out.append(posixpath.normpath('/' + s)[1:])
    seen, res = set([s]), []
    for x in out:
        if x not in seen:
            seen.add(x)
            res.append(x)
    return res


def lead_add_variants(s):
    return [x for x in ('./' + s, '/' + s, '.' + s, '../' + s, '..' + s, s + '/', s + '/.') if x != s]


def gen_lead_list(r, wide, earlier):
    n = r.choice((1, 1, 2, 2, 3, 4))
    pats = [gen_lead_pattern(r)]
    while len(pats) < n:
        k = r.random()
        if earlier and k < 0.30:
            # the same pattern as in an earlier paragraph with its leading characters stripped / with leading characters
            # added: only the LAST paragraph that really matches may answer
            p = r.choice(r.choice(earlier))
            cand = lead_strip_variants(p) if r.random() < 0.6 else lead_add_variants(p)
            cand = [x for x in cand if x and G.is_legal(x) and not x.endswith('\\')]
            p = r.choice(cand) if cand else gen_lead_pattern(r)
        elif k < 0.70:
            p = gen_lead_pattern(r)
        elif k < 0.82:
            cand = [x for x in lead_strip_variants(r.choice(pats)) if x and G.is_legal(x)]
            p = r.choice(cand) if cand else gen_lead_pattern(r)
        else:
            p = gen_pattern(r, wide, illegal_ok=False)
        if p and p not in pats and not any(ch in p for ch in ' \t\n'):
            pats.append(p)
    r.shuffle(pats)
    return pats


def lead_names(r, lists, budget):
    """Names with the same (and with other) leading characters as the patterns: literal expansions, the same with the leading
    './' '../' '/' '.' run stripped / path-normalised / reduced to the base name, the same with such characters put in front,
    one edit.  Returns [(name, class), ...]."""
    out, seen = [], set()

    def add(name, cls):
        if name is not None and name not in seen and '\n' not in name:
            seen.add(name)
            out.append((name, cls))

    order = [(li, k) for li, pats in enumerate(lists) for k in range(len(pats))]
    r.shuffle(order)
    order.sort(key=lambda t: lead_class(lists[t[0]][t[1]]) == 'other')
    for li, k in order:
        if len(out) >= budget:
            break
        p = lists[li][k]
        s = _literal_name(r, p)
        if s is None:
            continue
        add(s, 'whole-pattern')
        sv = lead_strip_variants(s)
        r.shuffle(sv)
        for x in sv[:2]:
            add(x, 'leading-characters-stripped')
        av = lead_add_variants(s)
        r.shuffle(av)
        for x in av[:1 if lead_class(p) != 'other' else 2]:
            add(x, 'leading-characters-added')
        if r.random() < 0.3:
            add(edit(r, s), 'edited')
    for x in r.sample(['.', '..', '/', './', '.x', './x', '/x', '../x', '.gitignore', '', 'x', '.a/b', 'a/.b'], 2):
        add(x, 'fixed-probe')
    return out


def gen_lead_case(r, wide):
    nf = r.choice((1, 2, 2, 3)) if not wide else r.choice((1, 2, 2, 3, 3, 4))
    paras, lists = [], []
    if r.random() < 0.25:
        paras.append({'F': [r.choice(('*', '*', '*/*', '?*'))], 'via': 'create'})
        lists.append(paras[-1]['F'])
    for j in range(nf):
        if r.random() < 0.25:
            paras.append({'L': 1})
        pats = gen_lead_list(r, wide, [l for l in lists if l[0] not in ('*', '*/*', '?*')])
        via = r.choice(('create', 'create', 'create', 'create', 'assign', 'assign-in-doc'))
        ent = {'F': pats, 'via': via}
        if r.random() < 0.25:
            ent['seq'] = 'tuple'
        if via != 'create':
            ent['first'] = r.choice((['placeholder'], ['*'], [x.lstrip('./') or 'x' for x in pats[:1]], [gen_lead_pattern(r)]))
            if not G.GlobList(ent['first']).legal:
                ent['first'] = ['placeholder']
        paras.append(ent)
        lists.append(pats)
    if r.random() < 0.03:
        k = r.randrange(len(lists))
        lists[k].insert(r.randrange(len(lists[k]) + 1), r.choice(('./\\d', '.\\.', '/\\/x', '../\\a')))
    if r.random() < 0.25:
        paras.append({'L': 1})
    named = lead_names(r, [l for l in lists if G.GlobList(l).legal], 12 if not wide else 16)
    case = {'kind': 'long', 'cls': 'lead', 'paras': paras, 'names': [n for n, _ in named], 'ncls': [c for _, c in named],
            'dump': r.choice(('return', 'file')),
            'reparse': r.choice(('parse', 'parse', 'parse-file', 'parse-noeol', 'parse-bytes', 'parse-bytesio', 'parse-disk'))}
    if r.random() < 0.3:
        case['strict'] = False
    if r.random() < 0.35:
        fidx = [i for i, p in enumerate(paras) if 'F' in p and G.GlobList(p['F']).legal]
        if fidx:
            i = r.choice(fidx)
            old = paras[i]['F']
            k = r.randrange(len(old))
            cand = [x for x in lead_strip_variants(old[k]) + lead_add_variants(old[k])
                    if x and G.is_legal(x) and x not in old and not x.endswith('\\')]
            if cand:
                newp = list(old)
                newp[k] = r.choice(cand)
                case['reassign'] = [sum(1 for p in paras[:i] if 'F' in p), newp]
                for nm in (_literal_name(r, old[k]), _literal_name(r, newp[k])):
                    if nm is not None and nm not in case['names']:
                        case['names'].append(nm)
                        case['ncls'].append('changed-by-reassignment')
    return case


# ---------------------------------------------------------------------------
# BYTES documents with '#' comment lines (kind 'cmt')

# comment lines ('%d' -> a number unique in the document); the ones that look like a field are "commented-out field lines"
CMT_PLAIN = ['#', '# comment %d', '# a note, with: a colon %d', '#\t', '##', '#  indented %d', '# .', '#.', '# * ? \\ %d',
             '# -*- coding: utf-8 -*-', '# é中 %d', '#comment-without-blank-%d', '# TODO(%d): check']
CMT_FIELD = ['#Files: old%d/*', '#Files: old%d/*', '# Files: old%d/*', '#Copyright: 1999 Nobody%d', '#License: GPL-%d+',
             '#Files:', '#Comment: %d']
# gaps between paragraphs: e = empty line, c = comment line(s), w = whitespace-only line
CMT_GAP_BLOCK = ['ece', 'ece', 'ece', 'ecce', 'ecece', 'eece', 'ecee', 'ececce', 'wce', 'ecw']      # comment-only block
CMT_GAP_BEFORE = ['ec', 'ec', 'ecc', 'eec', 'ecec']               # comment directly in front of the first field
CMT_GAP_AFTER = ['ce', 'ce', 'cce', 'cec', 'cece', 'cee']         # comment directly behind the last field
CMT_TAIL = ['c', 'cc', 'ec', 'ec', 'ece', 'ecc', 'cec', 'eec', 'ecec', 'ececc', 'ce']
CMT_TOP = ['c', 'c', 'cc', 'ce', 'cec', 'ec']
# bytes sources and the str source of the same family (the control)
CMT_PAIR = {'bytes-list': 'str-list', 'bytes-list-noeol': 'str-list-noeol', 'bytes-tuple': 'str-tuple', 'bytes-gen': 'str-gen',
            'bytes-iter': 'str-iter', 'bytesio': 'stringio', 'bytes-buffered': 'stringio', 'disk-rb': 'disk-text',
            'disk-rb-raw': 'disk-text', 'bytes-whole': 'str-whole'}
CMT_SRCS = ['bytes-list', 'bytes-list', 'bytes-list', 'bytes-list-noeol', 'bytes-tuple', 'bytes-gen', 'bytes-gen', 'bytes-iter',
            'bytesio', 'bytesio', 'bytesio', 'bytes-buffered', 'disk-rb', 'disk-rb', 'disk-rb', 'disk-rb-raw', 'bytes-whole']
CMT_FOCUS = ['between', 'between', 'between', 'inside-files', 'inside-files', 'inside-files', 'before-first-field', 'after-last',
             'after-last', 'commented-out-field', 'commented-out-field', 'top', 'mixed', 'mixed']


def is_comment_line(body):
    return body.startswith('#')


def gen_cmt_case(r, wide):
    """A copyright document with '#' comment lines, to be handed to Copyright() as BYTES (and, as the control, as str).  One
    position class is forced per document (CMT_FOCUS), the others occur at a lower rate."""
    focus = r.choice(CMT_FOCUS)
    nf = r.choice((1, 2, 2, 3, 3, 4)) if not wide else r.choice((1, 2, 3, 3, 4, 5))
    illegal_ok = r.random() < 0.04
    realistic = r.random() < 0.2
    uid = [0]
    old_names = []

    def comment(field=False):
        uid[0] += 1
        t = r.choice(CMT_FIELD if field else CMT_PLAIN)
        if '%d' in t:
            t = t % uid[0]
        if t.startswith(('#Files: old', '# Files: old')):
            old_names.append('old%d/x' % uid[0])
        return t

    def comments(field=False):
        out = [comment(field)]
        for _ in range(r.choice((0, 0, 0, 1, 1, 2))):
            out.insert(r.randrange(len(out) + 1), comment(field and r.random() < 0.3))
        return out

    def gap(code):
        out = []
        for ch in code:
            if ch == 'e':
                out.append('')
            elif ch == 'w':
                out.append(r.choice(WS_LINES))
            else:
                out.extend(comments(field=(focus == 'commented-out-field' and r.random() < 0.3) or r.random() < 0.1))
        return out

    paras, lists = [], []
    for j in range(nf):
        if r.random() < 0.25:
            paras.append({'L': 1})
        legal = [gl for gl in lists if gl.legal]
        k = r.random()
        if j == 0 and k < 0.3:
            pats = ['*']
        elif realistic:
            pats = r.sample(REAL_POOL, r.choice((1, 2, 3, 4)))
        elif k < 0.42:
            pats = [p for p in gen_lead_list(r, wide, []) if p != '.']
        elif legal and k < 0.6:
            pats = overlapping_list(r, r.choice(legal), wide)[0]
        else:
            pats = gen_list(r, wide, illegal_ok=illegal_ok)
        if r.random() < 0.06:
            # a '#' inside / at the start of a pattern is NOT a comment: the line starts with 'Files:' or with a blank
            pats = list(pats)
            pats.insert(r.randrange(len(pats) + 1), r.choice(('a#b', '#x', '#', 'src/#*#', '#*')))
        pats = pats or ['x']
        paras.append({'F': pats, 'sep': r.choice((0, 1, 1, 2, 2)), 'fo': r.choice((0, 0, 1, 1, 2))})
        lists.append(G.GlobList(pats))
    if r.random() < 0.3:
        paras.append({'L': 1})
    fi = [i for i, p in enumerate(paras) if 'F' in p]
    if focus in ('inside-files', 'commented-out-field'):
        # at least one Files field with a slot between two of its lines
        i = r.choice(fi)
        p = paras[i]
        if len(p['F']) == 1:
            p['sep'] = 2
        elif p['sep'] == 0:
            p['sep'] = r.choice((1, 2))
    # --- gaps in front of the paragraphs
    n = len(paras)
    pool = {'between': CMT_GAP_BLOCK, 'before-first-field': CMT_GAP_BEFORE}.get(focus)
    gaps = []
    for i in range(n):
        k = r.random()
        if pool and k < 0.6:
            gaps.append(r.choice(pool))
        elif focus == 'mixed' and k < 0.6:
            gaps.append(r.choice(CMT_GAP_BLOCK + CMT_GAP_BEFORE + CMT_GAP_AFTER))
        elif k < (0.2 if not pool else 0.75):
            gaps.append(r.choice(CMT_GAP_BLOCK + CMT_GAP_BEFORE + CMT_GAP_AFTER))
        else:
            gaps.append('e')
    if pool and not any(g in pool for g in gaps):
        gaps[r.randrange(n)] = r.choice(pool)
    # --- lines
    lines = []
    if focus == 'top' or r.random() < 0.1:
        lines.extend(gap(r.choice(CMT_TOP)))
    lines.append('Format: %s' % FORMAT)
    if r.random() < 0.1:
        lines.extend(comments())
    lines.append('Upstream-Name: x')
    forced = [False]

    def para_with_comments(i, p):
        base = para_lines(i, p)
        out = [base[0]]
        field = base[0].split(':', 1)[0]
        for k in range(1, len(base)):
            line = base[k]
            cont = line.startswith(' ')
            in_files = cont and field == 'Files'
            if in_files:
                rate = 0.55 if focus in ('inside-files', 'commented-out-field', 'mixed') else 0.12
            elif cont:
                rate = 0.2 if focus == 'mixed' else 0.06
            else:
                rate = 0.3 if focus == 'mixed' else 0.08
                if field == 'Files' and focus in ('inside-files', 'commented-out-field'):
                    rate = 0.35
            if r.random() < rate:
                out.extend(comments(field=(focus == 'commented-out-field' and (in_files or field == 'Files') and r.random() < 0.8)
                                    or r.random() < 0.12))
                if in_files:
                    forced[0] = True
            if not cont:
                field = line.split(':', 1)[0]
            out.append(line)
        return out

    bodies = [para_with_comments(i, p) for i, p in enumerate(paras)]
    if focus in ('inside-files', 'commented-out-field') and not forced[0]:
        # force one comment between two lines of a multi-line Files field
        cand = []
        for i, p in enumerate(paras):
            if 'F' in p:
                b = bodies[i]
                f0 = [k for k, l in enumerate(b) if l.startswith('Files:')][0]
                k = f0 + 1
                while k < len(b) and (b[k].startswith(' ') or b[k].startswith('#')):
                    if b[k].startswith(' '):
                        cand.append((i, k))
                    k += 1
        if cand:
            i, k = r.choice(cand)
            bodies[i][k:k] = comments(field=(focus == 'commented-out-field'))
    for i in range(n):
        lines.extend(gap(gaps[i]))
        lines.extend(bodies[i])
    if focus == 'after-last' or r.random() < 0.15:
        lines.extend(gap(r.choice(CMT_TAIL)))
    elif r.random() < 0.1:
        lines.append('')
    if not any(is_comment_line(l) for l in lines):
        lines.extend(gap('ec'))
    names = gen_names(r, lists, 5)
    for nm in old_names[:2]:
        if nm not in names:
            names.append(nm)
    case = {'kind': 'cmt', 'src': r.choice(CMT_SRCS), 'paras': paras, 'lines': lines, 'names': names}
    if r.random() < 0.35:
        case['strict'] = False
    if r.random() < 0.15:
        case['final_eol'] = False
    return case


# ---------------------------------------------------------------------------
# BYTES documents in which ONE field line is not valid UTF-8 (kind 'enc')

# non-ASCII patterns (correct UTF-8 in the document); none contains a character str.split() takes for whitespace
ENC_PATTERNS = ['docs/café/*', 'docs/café/*', 'ünï/*.c', 'ünï/*.c', '中文/*', 'src/日本語/?.c', 'données/*.csv', 'Ελληνικά/*', 'naïve.txt',
                'README.ру', 'po/пер?вод.po', 'fonts/Ω*', 'straße/*', 'emoji/😀*', 'ｆｕｌｌ/*.h', 'docs/café/README', 'ünï/main.c',
                '*/日本語/*', 'café*', '?ber/*', 'data/∑?.dat', 'man/ja/マニュアル.1', 'docs/café/\\*', 'ñ', 'é?', '*é', '中?', '*.ç',
                'docs/café/*', 'ÿ/þ']
ENC_ALPHA = ['a', 'a', 'b', 'c', '/', '/', '.', 'x', '-', 'é', 'é', 'ü', '中', 'я', 'ß', 'Ω']
# author names and the legacy encodings they are realistically found in
ENC_AUTHORS = [('José García', ('latin-1', 'latin-1', 'cp1252', 'iso-8859-15', 'cp437', 'mac-roman', 'cp850')),
               ('François Müller', ('latin-1', 'latin-1', 'cp1252', 'iso-8859-15', 'cp437', 'mac-roman')),
               ('Jürgen Groß', ('latin-1', 'cp1252', 'iso-8859-15', 'cp850')),
               ('Renée Østergård', ('latin-1', 'cp1252', 'iso-8859-15', 'mac-roman')),
               ('Ærøskøbing Åse', ('latin-1', 'iso-8859-15')),
               ('© 2001 Foo Inc.', ('latin-1', 'cp1252')),
               ('“Foo” – Bar', ('cp1252',)),
               ('Łukasz Żółw', ('cp1250', 'iso-8859-2')),
               ('Дмитрий Иванов', ('koi8-r', 'cp1251', 'iso-8859-5')),
               ('山田太郎', ('shift_jis', 'euc-jp')),
               ('é', ('latin-1',)), ('Muñoz', ('latin-1', 'cp1252'))]
ENC_FAMILY = {'latin-1': 'western-single-byte', 'cp1252': 'western-single-byte', 'iso-8859-15': 'western-single-byte',
              'cp437': 'western-single-byte', 'cp850': 'western-single-byte', 'mac-roman': 'western-single-byte',
              'cp1250': 'central-european', 'iso-8859-2': 'central-european', 'koi8-r': 'cyrillic', 'cp1251': 'cyrillic',
              'iso-8859-5': 'cyrillic', 'shift_jis': 'cjk-multi-byte', 'euc-jp': 'cjk-multi-byte'}
ENC_ASCII_AUTHORS = ['Jane Doe', 'The Foo Authors', 'J. Random Hacker']
ENC_SRCS = ['bytes-list', 'bytes-list', 'bytes-list', 'bytes-list-noeol', 'bytes-tuple', 'bytes-gen', 'bytes-gen', 'bytes-iter',
            'bytesio', 'bytesio', 'bytesio', 'bytes-buffered', 'disk-rb', 'disk-rb', 'disk-rb', 'disk-rb-raw']
ENC_FOCUS = ['same-para-before-files', 'same-para-before-files', 'same-para-before-files', 'same-para-after-files',
             'same-para-after-files', 'earlier-para', 'earlier-para', 'later-para', 'later-para', 'header', 'any']
ENC_HDR = ['contact', 'source', 'comment', 'comment2', 'disclaimer', 'copyright', 'license']


def _non_ascii(s):
    return any(ord(ch) > 127 for ch in s)


def _not_utf8(raw):
    try:
        raw.decode('utf-8')
    except UnicodeDecodeError:
        return True
    return False


def gen_enc_list(r, earlier):
    """1..3 patterns, most of them with non-ASCII characters; 25% of the further ones narrow a pattern of an EARLIER
    paragraph (the later paragraph must win for the names both match)."""
    pats = []
    for _ in range(r.choice((1, 1, 2, 2, 3))):
        k = r.random()
        if earlier and k < 0.25:
            src = r.choice(r.choice(earlier))
            s = ''
            if G.is_legal(src):
                s = G.expand(G.parse(src), r, ENC_ALPHA)
            p = escape_literal(s) if s else src
            if r.random() < 0.3 and len(s) > 1:
                p = escape_literal(s[:r.randrange(1, len(s))]) + '*'
        elif k < 0.85:
            p = r.choice(ENC_PATTERNS)
        else:
            p = r.choice(REAL_POOL)
        if p not in pats:
            pats.append(p)
    return pats


def enc_mojibake(r, s):
    """What the name looks like when its UTF-8 bytes are read in a legacy encoding (a NEAR MISS for the pattern it came from)."""
    raw = s.encode('utf-8')
    for codec in r.sample(['latin-1', 'cp1252', 'cp1253', 'cp1250', 'mac-roman', 'cp437'], 3):
        t = raw.decode(codec, 'replace')
        if t != s:
            return t
    return s + 'Ã©'


def enc_names(r, lists, k):
    """Names near the languages of the lists: literal expansions (non-ASCII ones preferred), one edit, the mojibake reading of
    an expansion, its ASCII folding."""
    toks = [t for gl in lists for t in gl.toks if t is not None]
    names = []
    for _ in range(k):
        s = ''
        for _try in range(3):
            s = G.expand(r.choice(toks), r, ENC_ALPHA)
            if _non_ascii(s):
                break
        x = r.random()
        if x < 0.5:
            pass
        elif x < 0.7:
            alpha = ENC_ALPHA + ['e', 'u', '?', '*']
            i = r.randrange(len(s) + 1)
            y = r.random()
            if y < 0.35 or not s:
                s = s[:i] + r.choice(alpha) + s[i:]
            elif y < 0.7:
                i = r.randrange(len(s))
                s = s[:i] + s[i + 1:]
            else:
                i = r.randrange(len(s))
                s = s[:i] + r.choice(alpha) + s[i + 1:]
        elif x < 0.9:
            s = enc_mojibake(r, s)
        else:
            s = ''.join(ch if ord(ch) < 128 else {'é': 'e', 'ü': 'u', 'ï': 'i', 'ß': 'ss'}.get(ch, '?') for ch in s)
        names.append(s)
    return names


def enc_records(paras, hdr):
    """The document as records [line body, paragraph index (-1: header), field, first line of its field, candidate].  A
    candidate line carries the placeholder {A} (an author name): one of them becomes the line that is not valid UTF-8.  Never
    candidates: the Format line, the lines of a Files field, the line that carries the short name of a License field."""
    recs = []

    def add(text, pi, field, first, cand=False):
        recs.append([text, pi, field, first, cand])

    add('Format: %s' % FORMAT, -1, 'Format', True)
    add('Upstream-Name: x', -1, 'Upstream-Name', True)
    for h in hdr:
        if h == 'contact':
            add('Upstream-Contact: {A} <a@example.org>', -1, 'Upstream-Contact', True, True)
        elif h == 'source':
            add('Source: https://example.org/ (mirror kept by {A})', -1, 'Source', True, True)
        elif h == 'comment':
            add('Comment: packaged by {A}', -1, 'Comment', True, True)
        elif h == 'comment2':
            add('Comment: packaged by', -1, 'Comment', True)
            add(' {A}', -1, 'Comment', False, True)
            add(' and others', -1, 'Comment', False)
        elif h == 'disclaimer':
            add('Disclaimer: not part of Debian', -1, 'Disclaimer', True)
            add(' because {A} says so', -1, 'Disclaimer', False, True)
        elif h == 'copyright':
            add('Copyright: 1999 {A}', -1, 'Copyright', True, True)
        elif h == 'license':
            add('License: H0', -1, 'License', True)
            add(' header license text by {A}', -1, 'License', False, True)
    for i, p in enumerate(paras):
        add('', i, None, False)
        if 'F' not in p:
            add('License: L%d' % i, i, 'License', True)
            add(' text %d by {A}' % i, i, 'License', False, True)
            if p.get('lt'):
                add(' more text %d' % i, i, 'License', False)
            if p.get('post'):
                add('Comment: note %d by {A}' % i, i, 'Comment', True, True)
            continue
        pats, sep = p['F'], p.get('sep', 0)
        if sep == 0:
            f = [['Files: %s' % ' '.join(pats), True]]
        elif sep == 1:
            f = [['Files: %s' % pats[0], True]] + [[' %s' % x, False] for x in pats[1:]]
        else:
            f = [['Files:', True]] + [[' %s' % x, False] for x in pats]
        f = [[t, i, 'Files', first, False] for t, first in f]
        c = [['Copyright: c%d 2001 {A}' % i, i, 'Copyright', True, True]]
        for k in range(p.get('cc', 0)):
            c.append([' %d {A}' % (2002 + k), i, 'Copyright', False, True])
        l = [['License: L%d' % i, i, 'License', True, False]]
        for k in range(p.get('lt', 0)):
            l.append([' license text %d.%d by {A}' % (i, k), i, 'License', False, True])
        pre, post = [], []
        if p.get('pre'):
            pre.append(['Comment: pre %d by {A}' % i, i, 'Comment', True, True])
            if p['pre'] > 1:
                pre.append([' and {A}', i, 'Comment', False, True])
        if p.get('post'):
            post.append(['Comment: post %d by {A}' % i, i, 'Comment', True, True])
        fo = p.get('fo', 0)
        if p.get('pre') and p.get('post'):
            post = []                                   # one Comment field per paragraph
        if fo == 0:
            recs.extend(pre + f + c + l + post)
        elif fo == 1:
            recs.extend(c + l + pre + f + post)
        else:
            recs.extend(c + pre + f + l + post)
    return recs


def enc_positions(lines, bad):
    """Where the line number `bad` stands relative to the Files fields that carry non-ASCII patterns (labels for the evidence
    counters and for the generator's forcing); also (ordinal of the Files paragraph it is in | None, its field name, whether it
    is the first line of its field, ordinal of its paragraph in the document: 0 = header)."""
    paras, cur = [], []
    for k, l in enumerate(lines):
        if l == '':
            if cur:
                paras.append(cur)
            cur = []
        else:
            cur.append(k)
    if cur:
        paras.append(cur)
    info = []          # per paragraph: (first, last line of the Files field | None, non-ASCII patterns?)
    for idx in paras:
        f0 = [k for k in idx if lines[k].startswith('Files:')]
        if not f0:
            info.append(None)
            continue
        a = b = f0[0]
        while b + 1 <= idx[-1] and lines[b + 1][:1] in (' ', '\t'):
            b += 1
        info.append((a, b, any(_non_ascii(lines[k]) for k in range(a, b + 1))))
    mine = [j for j, idx in enumerate(paras) if idx[0] <= bad <= idx[-1]]
    labels = []
    if not mine:
        return labels, None, None, False, None
    j = mine[0]
    k = bad
    while k > paras[j][0] and lines[k][:1] in (' ', '\t'):
        k -= 1
    field = lines[k].split(':', 1)[0]
    first = k == bad
    if j == 0:
        labels.append('header')
    elif info[j] is None:
        labels.append('stand-alone-license-paragraph')
    if info[j] is not None:
        a, b, na = info[j]
        side = 'before' if bad < a else 'after'
        labels.append('same-paragraph-%s-files-field' % side)
        if na:
            labels.append('same-paragraph-%s-non-ascii-files-field' % side)
        if bad == a - 1:
            labels.append('line-directly-before-files-field')
        if bad == b + 1:
            labels.append('line-directly-after-files-field')
    if any(x is not None and x[2] for x in info[j + 1:]):
        labels.append('earlier-paragraph-than-non-ascii-files-field')
    if any(x is not None and x[2] for x in info[:j]):
        labels.append('later-paragraph-than-non-ascii-files-field')
    ford = None
    if info[j] is not None:
        ford = sum(1 for x in info[:j] if x is not None)
    return labels, ford, field, first, j


_ENC_FOCUS_LABEL = {'same-para-before-files': 'same-paragraph-before-non-ascii-files-field',
                    'same-para-after-files': 'same-paragraph-after-non-ascii-files-field',
                    'earlier-para': 'earlier-paragraph-than-non-ascii-files-field',
                    'later-para': 'later-paragraph-than-non-ascii-files-field', 'header': 'header'}


def gen_enc_case(r, wide):
    """A copyright document handed to Copyright() as BYTES in which exactly ONE line - a Copyright / Comment / License-text /
    Disclaimer / header field line carrying an author name in a legacy encoding - is not valid UTF-8, while Files fields and
    queried names carry correct UTF-8 non-ASCII characters.  One position of the bad line is forced per document (ENC_FOCUS)."""
    focus = r.choice(ENC_FOCUS)
    nf = r.choice((1, 2, 2, 3, 3)) if not wide else r.choice((1, 2, 3, 3, 4, 5))
    paras, lists, earlier = [], [], []
    for j in range(nf):
        if r.random() < 0.3:
            paras.append({'L': 1, 'lt': r.choice((0, 1)), 'post': r.choice((0, 0, 1))})
        k = r.random()
        if j == 0 and k < 0.2 and nf > 1:
            pats = ['*']
        elif k < 0.85 or not earlier:
            pats = gen_enc_list(r, earlier)
            if not any(_non_ascii(x) for x in pats):
                pats.insert(r.randrange(len(pats) + 1), r.choice([x for x in ENC_PATTERNS if _non_ascii(x)]))
            earlier.append(pats)
        else:
            pats = gen_list(r, wide, illegal_ok=False)
        paras.append({'F': pats, 'sep': r.choice((0, 1, 1, 2)), 'fo': r.choice((0, 0, 1, 2)), 'pre': r.choice((0, 0, 0, 1, 2)),
                      'post': r.choice((0, 0, 1)), 'cc': r.choice((0, 0, 1, 2)), 'lt': r.choice((0, 0, 1, 2))})
        lists.append(G.GlobList(pats))
    if r.random() < 0.35 or focus == 'later-para':
        paras.append({'L': 1, 'lt': r.choice((0, 1)), 'post': r.choice((0, 0, 1))})
    hdr = [h for h in ENC_HDR if r.random() < 0.3]
    if 'comment' in hdr and 'comment2' in hdr:
        hdr.remove('comment2')
    if focus == 'header' and not hdr:
        hdr = [r.choice(ENC_HDR)]
    na = [i for i, p in enumerate(paras) if 'F' in p and any(_non_ascii(x) for x in p['F'])] or \
         [i for i, p in enumerate(paras) if 'F' in p]
    if focus == 'same-para-before-files' and not any(paras[i]['fo'] or paras[i]['pre'] for i in na):
        p = paras[r.choice(na)]
        if r.random() < 0.5:
            p['pre'] = r.choice((1, 2))
        else:
            p['fo'] = r.choice((1, 2))
    recs = enc_records(paras, hdr)
    lines0 = [x[0] for x in recs]
    cand = [k for k, x in enumerate(recs) if x[4]]
    want = _ENC_FOCUS_LABEL.get(focus)
    pool = [k for k in cand if want in enc_positions(lines0, k)[0]] if want else []
    bad = r.choice(pool or cand)
    for _ in range(8):
        author, codecs = r.choice(ENC_AUTHORS)
        benc = r.choice(codecs)
        try:
            if _not_utf8(lines0[bad].replace('{A}', author).encode(benc)):
                break
        except UnicodeEncodeError:
            pass
    else:
        author, benc = 'José García', 'latin-1'
    lines = []
    for k, x in enumerate(recs):
        t = x[0]
        if k == bad:
            t = t.replace('{A}', author)
        elif x[4]:
            t = t.replace('{A}', r.choice(ENC_AUTHORS)[0] if r.random() < 0.6 else r.choice(ENC_ASCII_AUTHORS))
        lines.append(t)
    case = {'kind': 'enc', 'src': r.choice(ENC_SRCS), 'paras': paras, 'lines': lines, 'bad': bad, 'benc': benc,
            'names': enc_names(r, lists, 6)}
    if r.random() < 0.35:
        case['strict'] = False
    if r.random() < 0.12:
        case['final_eol'] = False
    return case


# ---------------------------------------------------------------------------
# documents whose text fields QUOTE PGP armor lines on continuation lines (kind 'pgp')

PGP_SHAPES = ['begin-sig', 'begin-sig', 'begin-sig', 'begin-sig+end', 'begin-sig+end', 'begin-msg', 'begin-msg', 'begin-msg',
              'clearsigned', 'clearsigned', 'end-only', 'end-only', 'end-only', 'key-block', 'begin-key']
PGP_INDENT = [' ', ' ', ' ', ' ', '  ', '   ', '   ', '\t', ' \t', '        ']
PGP_SRCS = ['str-list', 'str-list', 'str-list-noeol', 'str-tuple', 'str-gen', 'str-iter', 'stringio', 'stringio', 'disk-text',
            'bytes-list', 'bytes-list', 'bytes-list-noeol', 'bytes-tuple', 'bytes-gen', 'bytes-iter', 'bytesio', 'bytesio',
            'bytes-buffered', 'disk-rb', 'disk-rb-raw']
PGP_HOSTS = ['header', 'header', 'files', 'files', 'files', 'files', 'license', 'license']


def pgp_block(r, shape, uid, tabs_ok=True):
    """Continuation lines that quote (part of) an ASCII-armored PGP object, every line with its leading blank(s).  tabs_ok=False:
    blanks only (License texts: the library reads a tab-led License text line as a format error when the license is accessed)."""
    ind = r.choice(PGP_INDENT if tabs_ok else [x for x in PGP_INDENT if '\t' not in x])
    trail = r.choice(('', '', '', '', ' ', '\t'))

    def m(what):
        return '%s-----%s-----%s' % (ind, what, trail)

    def b(text):
        return ind + text

    sig = [m('BEGIN PGP SIGNATURE')] + ([b('Version: GnuPG v1')] if r.random() < 0.3 else []) + \
          ([' .'] if r.random() < 0.5 else []) + [b('iQEcBAEBAgAGBQJT%dAAoJEA' % uid), b('=Ab%d' % uid)]
    msg = [m('BEGIN PGP SIGNED MESSAGE'), b('Hash: SHA256'), ' .', b('signed text %d' % uid)]
    end = [m('END PGP SIGNATURE')]
    if shape == 'begin-sig':
        out = sig
    elif shape == 'begin-sig+end':
        out = sig + end
    elif shape == 'begin-msg':
        out = msg if r.random() < 0.6 else msg[:1]
    elif shape == 'clearsigned':
        out = msg + sig + end
    elif shape == 'end-only':
        out = ([b('the signature ends with')] if r.random() < 0.5 else []) + \
              [m(r.choice(('END PGP SIGNATURE', 'END PGP SIGNATURE', 'END PGP MESSAGE', 'END PGP PUBLIC KEY BLOCK')))]
    elif shape == 'key-block':
        out = [m('BEGIN PGP PUBLIC KEY BLOCK'), ' .', b('mQENBF%dABCAC' % uid), b('=xy%d' % uid), m('END PGP PUBLIC KEY BLOCK')]
    else:
        out = [m('BEGIN PGP PUBLIC KEY BLOCK'), b('mQENBF%dABCAC' % uid)]
    if r.random() < 0.4:
        out = out + [' trailing text %d' % uid]
    if r.random() < 0.3:
        out = [' quoted %d:' % uid] + out
    return out


def _field_end(body, k):
    """Index behind the last continuation line of the field that starts at body[k]."""
    k += 1
    while k < len(body) and body[k][:1] in (' ', '\t'):
        k += 1
    return k


def pgp_insert(r, body, kind, shape, uid):
    """Put a quoted block into the paragraph `body` (line bodies): as the text of a new Comment / Disclaimer field at a field
    boundary, or as further continuation lines of the paragraph's License / Copyright field."""
    starts = [k for k, l in enumerate(body) if l[:1] not in (' ', '\t')]
    opts = ['comment-first', 'comment-last', 'comment-mid']
    if any(body[k].startswith('License:') for k in starts):
        opts += ['license-text', 'license-text']
    if any(body[k].startswith('Copyright:') for k in starts):
        opts += ['copyright-cont']
    if kind == 'header':
        opts = ['comment-last', 'comment-last', 'disclaimer', 'disclaimer', 'license-new', 'copyright-new']
    how = r.choice(opts)
    block = pgp_block(r, shape, uid, tabs_ok=how not in ('license-text', 'license-new'))
    if how in ('license-text', 'copyright-cont'):
        name = 'License:' if how == 'license-text' else 'Copyright:'
        k = [k for k in starts if body[k].startswith(name)][0]
        at = _field_end(body, k) if r.random() < 0.5 else k + 1
        return body[:at] + block + body[at:]
    x = r.random()
    if how in ('license-new', 'copyright-new'):
        head = ['License: H0'] if how == 'license-new' else ['Copyright: 1999 Header Holder %d' % uid]
    else:
        fname = 'Disclaimer' if how == 'disclaimer' else 'Comment'
        if x < 0.12 and block[0].lstrip(' \t').startswith('-----'):
            # the marker quoted on the field line itself: still not in column 0
            head, block = ['%s: %s' % (fname, block[0].lstrip(' \t'))], block[1:]
        elif x < 0.35:
            head = ['%s:' % fname]
        else:
            head = ['%s: a quoted signature follows (%d)' % (fname, uid)]
    new = head + block
    if how == 'comment-first':
        at = 0
    elif how == 'comment-mid' and len(starts) > 1:
        at = r.choice(starts[1:])
    else:
        at = len(body)
    return body[:at] + new + body[at:]


def gen_pgp_case(r, wide):
    """A copyright document in which Comment / License / Copyright / Disclaimer texts quote PGP armor lines on CONTINUATION lines
    (leading blanks kept), placed in front of later Files paragraphs; str and bytes sources, strict and non-strict."""
    nf = r.choice((2, 2, 3, 3, 4)) if not wide else r.choice((2, 3, 3, 4, 5, 6))
    realistic = r.random() < 0.2
    paras, lists = [], []
    for j in range(nf):
        if r.random() < 0.3:
            paras.append({'L': 1})
        legal = [gl for gl in lists if gl.legal]
        k = r.random()
        if j == 0 and k < 0.3:
            pats = ['*']
        elif realistic:
            pats = r.sample(REAL_POOL, r.choice((1, 2, 3)))
        elif legal and k < 0.55:
            pats = overlapping_list(r, r.choice(legal), wide)[0]
        else:
            pats = gen_list(r, wide, illegal_ok=False)
        paras.append({'F': pats, 'sep': r.choice((0, 0, 1, 2)), 'fo': r.choice((0, 0, 1, 1, 2))})
        lists.append(G.GlobList(pats))
    if r.random() < 0.25:
        paras.append({'L': 1})
    n = len(paras)
    fi = [i for i, p in enumerate(paras) if 'F' in p]
    bodies = [['Format: %s' % FORMAT, 'Upstream-Name: x']] + [para_lines(i, p) for i, p in enumerate(paras)]
    uid, used = 0, set()
    for q in range(r.choice((1, 1, 1, 2))):
        uid += 1
        host = r.choice(PGP_HOSTS)
        if host == 'header':
            b = 0
        elif host == 'files':
            # 85%: a Files paragraph that is not the last one (later Files paragraphs stand behind the quote)
            b = 1 + (r.choice(fi[:-1]) if len(fi) > 1 and r.random() < 0.85 else r.choice(fi))
        else:
            li = [i for i, p in enumerate(paras) if 'F' not in p and i < fi[-1]]
            if not li:
                host, b = 'files', 1 + fi[0]
            else:
                b = 1 + r.choice(li)
        if b in used:
            continue                                    # one quote per paragraph (no field twice in a paragraph)
        used.add(b)
        bodies[b] = pgp_insert(r, bodies[b], host, r.choice(PGP_SHAPES), uid)
    lines = []
    for b in bodies:
        if lines:
            lines.append('')
        lines.extend(b)
    case = {'kind': 'pgp', 'src': r.choice(PGP_SRCS), 'paras': paras, 'lines': lines, 'names': gen_names(r, lists, 5)}
    if r.random() < 0.4:
        case['strict'] = False
    if r.random() < 0.12:
        case['final_eol'] = False
    return case


# ---------------------------------------------------------------------------
# parsed documents whose multi-line Files field has continuation lines led in by a UNICODE BLANK other than space / tab
# (kind 'ubl')

# White_Space characters that are NOT str.splitlines() boundaries (so the line stays one line for every source kind)
UBLANKS = ['\u00a0', '\u1680'] + [chr(c) for c in range(0x2000, 0x200b)] + ['\u202f', '\u205f', '\u3000']
UBL_SHAPES = ['single', 'single', 'single', 'single', 'single', 'single', 'blank-then-nbsp', 'nbsp-then-blank', 'blank-then-unicode',
              'unicode-then-blank', 'tab-then-unicode', 'unicode-then-tab', 'two-unicode', 'unicode-then-nbsp']
UBL_SRCS = PGP_SRCS + ['str-whole', 'bytes-whole']


def ubl_lead(r, shape, u=None):
    u = u or r.choice(UBLANKS + ['\u00a0', '\u00a0', '\u3000', '\u2003', '\u202f'])
    return {'single': u, 'blank-then-nbsp': ' \u00a0', 'nbsp-then-blank': '\u00a0 ', 'blank-then-unicode': ' ' + u,
            'unicode-then-blank': u + ' ', 'tab-then-unicode': '\t' + u, 'unicode-then-tab': u + '\t',
            'two-unicode': u + r.choice(UBLANKS), 'unicode-then-nbsp': u + '\u00a0'}[shape]


def ubl_is_lead(s):
    """A lead of this class: blanks / tabs / Unicode blanks with at least one Unicode blank in it."""
    return bool(s) and all(ch in ' \t' or ch in UBLANKS for ch in s) and any(ch in UBLANKS for ch in s)


def ubl_lines(paras, plain=False):
    """Line bodies of the document; a Files paragraph with 'rows' = [[lead | None, [patterns]], ...] writes its Files field row
    by row (lead None: the field line).  Returns (lines, [[line number, lead, Files paragraph number], ...] of the rows led in by
    a Unicode blank).  plain=True: the CONTROL document, those rows led in by one plain space."""
    lines, led, fj = ['Format: %s' % FORMAT, 'Upstream-Name: x'], [], -1
    for i, p in enumerate(paras):
        lines.append('')
        if 'F' not in p:
            lines.extend(para_lines(i, p))
            continue
        fj += 1
        f = []
        for lead, pats in p['rows']:
            if lead is None:
                f.append(('Files: ' + ' '.join(pats)) if pats else 'Files:')
            else:
                f.append((' ' if (plain and ubl_is_lead(lead)) else lead) + ' '.join(pats))
        c, lic, fo = ['Copyright: c%d' % i], ['License: L%d' % i], p.get('fo', 0)
        body = f + c + lic if fo == 0 else (c + lic + f if fo == 1 else c + f + lic + [' text %d' % i])
        k0 = len(lines) + body.index(f[0])
        for k, (lead, pats) in enumerate(p['rows']):
            if lead is not None and ubl_is_lead(lead):
                led.append([k0 + k, lead, fj])
        lines.extend(body)
    return lines, led


def gen_ubl_case(r, wide, shape=None, u=None):
    nf = r.choice((1, 2, 2, 3, 3, 4)) if not wide else r.choice((1, 2, 3, 3, 4, 5, 6))
    realistic = r.random() < 0.25
    paras, lists, hosts = [], [], []
    force = r.randrange(nf)
    for j in range(nf):
        if r.random() < 0.3:
            paras.append({'L': 1})
        legal = [gl for gl in lists if gl.legal]
        k = r.random()
        if j == 0 and k < 0.3 and j != force:
            pats = ['*']
        elif realistic:
            pats = r.sample(REAL_POOL, r.choice((2, 3, 4)))
        elif legal and k < 0.55:
            pats = overlapping_list(r, r.choice(legal), wide)[0]
        else:
            pats = gen_list(r, wide, illegal_ok=False)
        host = j == force or r.random() < 0.45
        if host:
            while len(pats) < 2 or (len(pats) < 4 and r.random() < 0.4):
                extra = r.choice(REAL_POOL) if realistic else gen_pattern(r, wide, illegal_ok=False)
                if extra not in pats:
                    pats = pats + [extra]
        # rows: the field line carries 0..1 patterns (hosts) / everything; each continuation row 1..2 patterns
        rows = []
        if host:
            rest = list(pats)
            rows.append([None, [rest.pop(0)] if r.random() < 0.6 else []])
            while rest:
                n = 2 if (len(rest) >= 3 and r.random() < 0.3) else 1
                rows.append([r.choice((' ', ' ', '\t', '  ')), rest[:n]])
                rest = rest[n:]
            cont = list(range(1, len(rows)))
            pick = r.sample(cont, r.choice([1, 1, 2, len(cont)])) if len(cont) > 1 else cont
            if r.random() < 0.3:
                pick = sorted(set(pick) | {cont[-1]})           # the LAST pattern of the field stands on such a line
            for q in pick:
                rows[q][0] = ubl_lead(r, shape or r.choice(UBL_SHAPES), u)
            hosts.append(len(lists))
        else:
            sep = r.choice((0, 0, 1, 2)) if len(pats) > 1 else 0
            if sep == 0:
                rows = [[None, list(pats)]]
            else:
                rows = [[None, [pats[0]] if sep == 1 else []]] + [[' ', [x]] for x in (pats[1:] if sep == 1 else pats)]
        paras.append({'F': pats, 'rows': rows, 'fo': r.choice((0, 0, 1, 1, 2))})
        lists.append(G.GlobList(pats))
    if r.random() < 0.25:
        paras.append({'L': 1})
    lines, led = ubl_lines(paras)
    # names: a literal expansion of a pattern that stands on a led line of every host (the name such a line alone may cover),
    # the same with the lead put in front of it, near misses of all lists
    names = []
    for ln, lead, fj in led:
        for pat in lines[ln][len(lead):].split(' ')[:2]:
            nm = _literal_name(r, pat)
            if nm is not None and nm not in names and len(names) < 5:
                names.append(nm)
                if r.random() < 0.25 and lead + nm not in names:
                    names.append(lead + nm)
    for nm in gen_names(r, lists, 4):
        if nm not in names:
            names.append(nm)
    case = {'kind': 'ubl', 'src': r.choice(UBL_SRCS), 'paras': paras, 'names': names}
    if r.random() < 0.35:
        case['strict'] = False
    if r.random() < 0.12:
        case['final_eol'] = False
    return case


# ---------------------------------------------------------------------------
# build histories (kind 'build')

def escape_literal(name):
    """The glob that matches exactly `name`."""
    return ''.join('\\' + ch if ch in '\\*?' else ch for ch in name)


def overlapping_list(r, gl, wide):
    """(pattern list, witness name): a legal list that shares at least the
    witness name with the legal, whitespace-free list `gl`."""
    toks = r.choice(gl.toks)
    s = ''
    for _ in range(6):
        s = G.expand(toks, r, LIT)
        if s:
            break
    k = r.random()
    if not s or k < 0.22:
        return ['*'], (s or 'a')
    if k < 0.40:
        return list(gl.patterns), s
    lit = escape_literal(s)
    if k < 0.65:
        return [lit], s
    if k < 0.82:
        pats = [lit, gen_pattern(r, wide, illegal_ok=False)]
        r.shuffle(pats)
        return pats, s
    i = r.randrange(len(s))
    return [escape_literal(s[:i]) + '*'], s


def gen_build_case(r, wide):
    shape = r.choice(('empty', 'empty', 'sole-first', 'sole-first', 'parsed-tail-license', 'parsed-tail-license',
                      'random', 'random', 'random'))
    illegal_ok = r.random() < 0.05
    realistic = r.random() < 0.15
    every = r.random() < 0.35          # a full query after every mutating step
    st = {'ops': [], 'cur': [], 'all': [], 'wit': [], 'nF': 0, 'nL': 0}

    def new_list():
        if realistic:
            return r.sample(REAL_POOL, r.choice((1, 2, 3, 4)))
        return gen_list(r, wide, illegal_ok=illegal_ok)

    def q(force=False, full=False):
        if force or every or r.random() < 0.55:
            mask = 7 if (full or every or r.random() < 0.6) else r.choice((1, 2, 3, 6, 7))
            st['ops'].append(['q', mask])

    def add_f(pats=None, overlap=None):
        if pats is None:
            legal = [gl for gl in st['cur'] if gl.legal]
            if overlap is None:
                overlap = bool(legal) and r.random() < 0.5
            if overlap and legal:
                pats, w = overlapping_list(r, r.choice(legal), wide)
                st['wit'].append(w)
            else:
                pats = new_list()
        st['nF'] += 1
        gl = G.GlobList(pats)
        st['cur'].append(gl)
        st['all'].append(gl)
        st['ops'].append(['addF', list(pats), 'n%d' % st['nF']])

    def add_l():
        st['nL'] += 1
        st['ops'].append(['addL', 'M%d' % st['nL']])

    def random_paras(nf, tail):
        paras = []
        for j in range(nf):
            if r.random() < 0.3:
                paras.append({'L': 1})
            pats = ['*'] if (j == 0 and r.random() < 0.4) else new_list()
            paras.append({'F': pats, 'sep': r.choice((0, 0, 1, 2))})
        for _ in range(tail):
            paras.append({'L': 1})
        return paras

    def start_with(paras):
        for p in paras:
            if 'F' in p:
                gl = G.GlobList(p['F'])
                st['cur'].append(gl)
                st['all'].append(gl)
        start = {'mode': r.choice(('parse', 'parse', 'parse-file')), 'paras': paras}
        # whitespace-only separator lines in ~30% of the parsed starts; drawn from an RNG derived from the paragraphs so
        # that the seeded stream of the histories themselves is the one the floors were measured with
        rs = random.Random('ws/' + json.dumps(paras, sort_keys=True))
        if paras and rs.random() < 0.3:
            start['seps'] = gen_seps(rs, len(paras), 0.6)
            if rs.random() < 0.5:
                start['mode'] = rs.choice(WS_MODES)
            if rs.random() < 0.35:
                start['strict'] = False          # Copyright(..., strict=False)
        return start

    start = {'mode': 'empty', 'paras': []}
    if shape == 'empty':
        q(force=r.random() < 0.85, full=True)
        for _ in range(r.choice((0, 0, 1, 2))):
            add_l()
            q()
        for _ in range(r.choice((1, 1, 2, 3))):
            add_f()
            q()
    elif shape == 'sole-first':
        p0 = ['*'] if r.random() < 0.4 else gen_list(r, wide, illegal_ok=False)
        nl = r.choice((1, 1, 2, 3))
        if r.random() < 0.5:
            start = start_with([{'F': p0, 'sep': r.choice((0, 0, 1, 2))}] + [{'L': 1}] * nl)
        else:
            if r.random() < 0.5:
                q(full=True)
            add_f(p0)
            q()
            for _ in range(nl):
                add_l()
                q()
        q()
        add_f(overlap=True)
        q(force=True, full=True)
    elif shape == 'parsed-tail-license':
        nf = r.choice((0, 1, 1, 2, 2, 3, 4))
        start = start_with(random_paras(nf, r.choice((1, 1, 2))))
        q()
        for _ in range(r.choice((1, 1, 2, 3))):
            add_f()
            q()
    else:
        if r.random() < 0.5:
            start = start_with(random_paras(r.choice((0, 1, 2, 3)), r.choice((0, 0, 1))))
        q()
    for _ in range(r.choice((1, 2, 3, 4, 5)) if not wide else r.choice((1, 2, 3, 4, 5, 6, 8))):
        k = r.random()
        if k < 0.40:
            add_f()
        elif k < 0.55:
            add_l()
        elif k < 0.80 and st['cur']:
            i = r.randrange(len(st['cur']))
            old = st['cur'][i]
            if r.random() < 0.5:
                newp = mutate_same_length(r, old.patterns)
            else:
                newp = gen_list(r, wide, illegal_ok=False)
            gl = G.GlobList(newp)
            st['cur'][i] = gl
            st['all'].append(gl)
            st['ops'].append(['set', i, list(newp)])
        else:
            for _ in range(r.choice((2, 2, 3))):      # several adds in a row, nothing observed in between
                add_f()
        q()
    if st['ops'][-1] != ['q', 7]:
        st['ops'].append(['q', 7])
    names = gen_names(r, st['all'], 5) if st['all'] else gen_names(r, [G.GlobList(['*'])], 3)
    for w in st['wit'][-2:]:
        if w not in names:
            names.append(w)
    return {'kind': 'build', 'start': start, 'ops': st['ops'], 'names': names}


# ---------------------------------------------------------------------------
# documents built INCREMENTALLY through the Copyright API with SHARED license short names (kind 'incr')

# license short names (synopses) as they occur in real debian/copyright files; a case draws 2..3 of them, so that stand-alone
# License paragraphs and the License field of Files paragraphs keep naming the SAME license
INCR_SYN = ['GPL-2+', 'GPL-2+', 'GPL-2', 'GPL-3+', 'Expat', 'Expat', 'MIT', 'BSD-3-clause', 'BSD-2-clause', 'LGPL-2.1+',
            'Apache-2.0', 'public-domain', 'GPL-2+ or Expat', 'GPL-2+ with OpenSSL exception', 'Artistic or GPL-1+', 'CC0-1.0',
            'ISC', 'Zlib', 'gpl-2+', 'L']
INCR_OWNERS = ['2020 Jane Doe <jane@example.org>', '2001-2019 The Foo Authors', '1999 Nobody']
INCR_START_MODES = ['parse', 'parse', 'parse', 'parse-file', 'parse-file', 'parse-noeol', 'parse-bytes', 'parse-bytesio', 'parse-disk']
INCR_REPARSE_MODES = ['parse', 'parse', 'parse-file', 'parse-file', 'parse-noeol', 'parse-bytesio']


def gen_incr_case(r, wide):
    """An empty Copyright() or a parsed document, then 3..8 (thorough 3..10) add_files_paragraph / add_license_paragraph calls
    in mixed orders.  Every paragraph carries its unique id in a Comment field; license short names are drawn from a
    sub-pool of 2..3 names per case and by RELATION to the document as it is at that point: the short name of an earlier
    Files paragraph / of an earlier stand-alone License paragraph (= the same short name added twice) / of both / fresh."""
    pool = []
    while len(pool) < r.choice((2, 2, 3)):
        s = r.choice(INCR_SYN)
        if s not in pool:
            pool.append(s)
    illegal_ok = r.random() < 0.03
    realistic = r.random() < 0.15
    st = {'n': 0, 'tx': 0, 'fresh': 0, 'F': [], 'L': [], 'lists': [], 'wit': []}       # F / L: entries in the document so far

    def fresh_syn():
        unused = [s for s in pool if s not in [e['syn'] for e in st['F']] and s not in [e['L'] for e in st['L']]]
        if unused and r.random() < 0.7:
            return r.choice(unused)
        st['fresh'] += 1
        return r.choice(('Custom-%d', 'LicenseRef-%d', 'other-%d+')) % st['fresh']

    def pick_syn(kind, force=None):
        fs = [e['syn'] for e in st['F']]
        ls = [e['L'] for e in st['L']]
        avail = {'fresh': 2}
        if [s for s in fs if s not in ls]:
            avail['files'] = 3 if kind == 'L' else 2
        if [s for s in ls if s not in fs]:
            avail['lic'] = 3
        if [s for s in fs if s in ls]:
            avail['both'] = 2
        if force in avail:
            rel = force
        else:
            rel = r.choices(sorted(avail), [avail[k] for k in sorted(avail)])[0]
        if rel == 'fresh':
            return fresh_syn()
        if rel == 'files':
            return r.choice([s for s in fs if s not in ls])
        if rel == 'lic':
            return r.choice([s for s in ls if s not in fs])
        return r.choice([s for s in fs if s in ls])

    def new_f(force=None, parsed=False):
        legal = [gl for gl in st['lists'] if gl.legal]
        if legal and r.random() < 0.5:
            pats, w = overlapping_list(r, r.choice(legal), wide)
            st['wit'].append(w)
        elif not st['lists'] and r.random() < 0.3:
            pats = ['*']
        elif realistic:
            pats = r.sample(REAL_POOL, r.choice((1, 2, 3, 4)))
        else:
            pats = gen_list(r, wide, illegal_ok=illegal_ok)
        st['n'] += 1
        ent = {'F': list(pats), 'syn': pick_syn('F', force), 'id': 'id-%d' % st['n'],
               'own': r.randrange(len(INCR_OWNERS)) if r.random() < 0.6 else 'u'}
        same = [e for e in st['F'] if e['syn'] == ent['syn']]
        if same and r.random() < 0.5:
            ent['own'] = r.choice(same)['own']          # same copyright holder AND same license as an earlier Files paragraph
        if r.random() < 0.3:
            ent['lt'] = 1                               # the license text stands in the Files paragraph itself
        if parsed:
            ent['sep'] = r.choice((0, 0, 1, 2))
            ent['fo'] = r.choice((0, 0, 1))
        st['F'].append(ent)
        st['lists'].append(G.GlobList(pats))
        return ent

    def new_l(force=None):
        st['n'] += 1
        syn = pick_syn('L', force)
        same = [e for e in st['L'] if e['L'] == syn]
        if same and r.random() < 0.4:
            tx = r.choice(same)['tx']                   # the SAME license (short name and text) once more
        else:
            st['tx'] += 1
            tx = st['tx']
        ent = {'L': syn, 'tx': tx, 'id': 'id-%d' % st['n']}
        st['L'].append(ent)
        return ent

    shape = r.choice(('license-first', 'license-first', 'files-then-license', 'files-then-license', 'random', 'random', 'random'))
    start = {'mode': 'empty', 'paras': []}
    if r.random() < 0.55:
        paras = []
        if shape == 'license-first':
            for _ in range(r.choice((0, 0, 1, 2))):
                paras.append(new_l())
        else:
            for _ in range(r.choice((1, 2, 3, 4))):
                paras.append(new_f(parsed=True) if r.random() < 0.6 else new_l())
        start = {'mode': r.choice(INCR_START_MODES), 'paras': paras}
        if r.random() < 0.25:
            start['strict'] = False
    ops = []
    if shape == 'license-first':
        # License paragraphs are added BEFORE any Files paragraph exists (one short name twice), then Files paragraphs under
        # those short names
        for k in range(r.choice((1, 2, 2, 3))):
            ops.append(new_l('lic' if k and r.random() < 0.6 else None))
        ops.append(new_f('lic'))
        if r.random() < 0.6:
            ops.append(new_l(r.choice(('both', 'lic'))))
        if r.random() < 0.6:
            ops.append(new_f(r.choice(('both', 'lic', 'files'))))
    elif shape == 'files-then-license':
        # Files paragraph, then a stand-alone License paragraph under ITS short name, then a later Files paragraph under it
        # too, then the same License short name once more
        ops.append(new_f())
        ops.append(new_l('files'))
        ops.append(new_f('both'))
        if r.random() < 0.7:
            ops.append(new_l('both'))
        if r.random() < 0.5:
            ops.append(new_f('both'))
    for _ in range(r.choice((1, 2, 3, 4)) if not wide else r.choice((1, 2, 3, 4, 5, 6))):
        ops.append(new_f() if r.random() < 0.5 else new_l())
    names = gen_names(r, st['lists'], 5) if st['lists'] else gen_names(r, [G.GlobList(['*'])], 3)
    for w in st['wit'][-2:]:
        if w not in names:
            names.append(w)
    case = {'kind': 'incr', 'start': start, 'ops': ops, 'names': names, 'dump': r.choice(('return', 'file')),
            'reparse': [r.choice(INCR_REPARSE_MODES), r.choice(INCR_REPARSE_MODES)]}
    if r.random() < 0.2:
        case['hl'] = r.choice(pool)                     # the header names one of the licenses too
    return case


# ---------------------------------------------------------------------------
# cases

def _enum_specs(tier):
    """(pattern alphabet, max pattern len, list size, name alphabet, max name len)"""
    if tier == 'quick':
        return [('ab/*?\\', 3, 1, 'ab/*', 3), ('a/*?', 2, 2, 'a/b', 3)]
    return [('ab/*?\\.', 3, 1, 'ab/*\\', 4), ('ab/*?\\', 2, 2, 'ab/', 4), ('a*?', 2, 3, 'ab', 4)]


def _all_strings(alpha, maxlen, minlen=0):
    for n in range(minlen, maxlen + 1):
        for t in itertools.product(alpha, repeat=n):
            yield ''.join(t)


def cases(ctx):
    wide = ctx.tier == 'thorough'
    # -- bounded-exhaustive sweeps (workload driver only; the monitor still decides)
    idx = 0
    for (pa, pl, ln, na, nl) in _enum_specs(ctx.tier):
        pats = list(_all_strings(pa, pl, 1))
        for combo in itertools.product(pats, repeat=ln):
            if ln > 1 and len(set(combo)) < ln:
                continue
            idx += 1
            if ctx.mine(idx):
                yield {'kind': 'enum', 'pats': list(combo), 'alpha': na, 'maxlen': nl}
    # -- fixed regression-style seeds (always shard 0)
    if ctx.shard == 0:
        yield {'kind': 'para', 'pats': ['debian/rules', 'src/*'], 'names': ['debian/rules', 'debian/rules.in', 'src/a', 'src', 'x/src/a']}
        yield {'kind': 'para', 'pats': ['*'], 'names': ['', 'a', 'a/b', 'a\nb', '\n']}
        yield {'kind': 'para', 'pats': ['a?'], 'names': ['a', 'ab', 'a/', 'a\n', 'abc']}
        yield {'kind': 'para', 'pats': ['\\.'], 'names': ['.', 'a']}
        yield {'kind': 'para', 'pats': ['a', 'b\\'], 'names': ['a', 'b\\']}
    # -- random paragraphs
    r = ctx.rng('para')
    for i in range(ctx.size(*SIZES['para'])):
        pats = gen_list(r, wide)
        gl = G.GlobList(pats)
        names = gen_names(r, [gl], 6 if gl.legal else 2)
        yield {'kind': 'para', 'pats': pats, 'names': names}
    # -- histories
    r = ctx.rng('hist')
    for i in range(ctx.size(*SIZES['hist'])):
        pats = gen_list(r, wide, illegal_ok=(r.random() < 0.1))
        ops = [['set', pats]]
        lists = [G.GlobList(pats)]
        for _ in range(r.choice((4, 6, 8, 10, 12))):
            k = r.random()
            if k < 0.42:
                if r.random() < 0.65:
                    pats = mutate_same_length(r, pats)
                else:
                    pats = gen_list(r, wide, illegal_ok=(r.random() < 0.1))
                ops.append(['set', pats])
                lists.append(G.GlobList(pats))
            else:
                ops.append(['match', gen_names(r, lists[-2:], 1)[0]])
        ops.append(['match', gen_names(r, lists[-2:], 1)[0]])
        yield {'kind': 'hist', 'ops': ops}
    # -- documents
    r = ctx.rng('doc')
    for i in range(ctx.size(*SIZES['doc'])):
        nf = r.choice((1, 2, 2, 3, 3, 4, 5)) if not wide else r.choice((1, 2, 3, 3, 4, 5, 6, 7))
        illegal_ok = r.random() < 0.08
        realistic = r.random() < 0.15
        paras, lists = [], []
        for j in range(nf):
            if r.random() < 0.3:
                paras.append({'L': 1})
            if j == 0 and r.random() < 0.4:
                pats = ['*']
            elif realistic:
                pats = r.sample(REAL_POOL, r.choice((1, 2, 3, 4)))
            else:
                pats = gen_list(r, wide, illegal_ok=illegal_ok)
            paras.append({'F': pats, 'sep': r.choice((0, 0, 1, 2))})
            lists.append(G.GlobList(pats))
        if r.random() < 0.3:
            paras.append({'L': 1})
        case = {'kind': 'doc', 'mode': r.choice(('parse', 'parse', 'parse-file', 'build')), 'paras': paras,
                'names': gen_names(r, lists, 5)}
        if r.random() < 0.35:
            k = r.randrange(nf)
            newp = mutate_same_length(r, lists[k].patterns) if r.random() < 0.5 else gen_list(r, wide, illegal_ok=False)
            case['reassign'] = [k, newp]
            case['names'] += gen_names(r, [G.GlobList(newp)], 2)
        yield case
    # -- parsed documents whose paragraphs are separated by whitespace-only lines (mixed with empty ones)
    if ctx.shard == 0:
        for w in (' ', '\t', '  \t'):
            for mode in ('parse', 'parse-file', 'parse-noeol', 'parse-bytesio', 'parse-disk'):
                # header/Files, Files/Files, Files/License, License/Files, each across the whitespace-only line alone
                yield {'kind': 'doc', 'mode': mode, 'seps': [[w], [w], [w], [w], [w]],
                       'paras': [{'F': ['*'], 'sep': 0, 'fo': 0}, {'F': ['debian/*', 'src/a'], 'sep': 2, 'fo': 1}, {'L': 1},
                                 {'F': ['debian/rules'], 'sep': 0, 'fo': 2}, {'F': ['*.c'], 'sep': 1, 'fo': 1}],
                       'names': ['debian/rules', 'debian/x', 'src/a', 'a.c', 'debian/a.c', 'README', 'src/a.in']}
                yield {'kind': 'doc', 'mode': mode, 'seps': [['', w], [w, ''], [w, w], ['', w, '']],
                       'paras': [{'L': 1}, {'F': ['a*'], 'sep': 0, 'fo': 1}, {'F': ['a?', 'b'], 'sep': 2, 'fo': 1}, {'L': 1}],
                       'names': ['ab', 'abc', 'b', 'a', 'c']}
    r = ctx.rng('wsdoc')
    for i in range(ctx.size(*SIZES['wsdoc'])):
        yield gen_wsdoc_case(r, wide)
    # -- the same class handed to Copyright(..., strict=False); gaps of several separator lines
    if ctx.shard == 0:
        for a, b in (('', ' '), (' ', ''), ('', '\t'), ('\t', ''), (' ', '\t')):
            for mode in ('parse', 'parse-file', 'parse-noeol', 'parse-bytes', 'parse-disk'):
                yield {'kind': 'doc', 'mode': mode, 'strict': False, 'seps': [[a, b], [a, b], [b, a], [a, b, a], [a, b]],
                       'paras': [{'F': ['*'], 'sep': 0, 'fo': 0}, {'F': ['debian/*', 'src/a'], 'sep': 2, 'fo': 1}, {'L': 1},
                                 {'F': ['debian/rules'], 'sep': 0, 'fo': 2}, {'F': ['*.c'], 'sep': 1, 'fo': 1}],
                       'names': ['debian/rules', 'debian/x', 'src/a', 'a.c', 'debian/a.c', 'README', 'src/a.in']}
                yield {'kind': 'doc', 'mode': mode, 'strict': False, 'seps': [[b, a], [a, b], [b], [a, a, b]],
                       'paras': [{'L': 1}, {'F': ['a*'], 'sep': 0, 'fo': 1}, {'F': ['a?', 'b'], 'sep': 2, 'fo': 1}, {'L': 1}],
                       'names': ['ab', 'abc', 'b', 'a', 'c']}
    r = ctx.rng('nsdoc')
    for i in range(ctx.size(*SIZES['nsdoc'])):
        yield gen_nsdoc_case(r, wide)
    # -- paragraphs BUILT through the API with LONG pattern lists (create / files assignment), dump-then-parse
    if ctx.shard == 0:
        quilt = ['debian/patches/fix-foo-bar-baz-%d.patch' % k for k in range(1, 13)]
        yield {'kind': 'long', 'dump': 'return', 'reparse': 'parse',
               'paras': [{'F': ['*'], 'via': 'create'}, {'F': quilt[:9] + ['src/*/lib-x/*.c'], 'via': 'create'}, {'L': 1},
                         {'F': quilt[6:] + ['po/??-x.po'], 'via': 'assign', 'first': ['placeholder']}],
               'names': quilt + ['debian/patches/fix-', 'foo-bar-baz-7.patch', 'baz-7.patch', 'src/a/lib-x/b.c', 'lib-x/b.c',
                                 'po/de-x.po', 'x.po', 'README', quilt[0] + quilt[1]],
               'reassign': [2, quilt[6:11] + ['debian/patches/fix-foo-bar-baz-99.patch', 'po/??-x.po']]}
        yield {'kind': 'long', 'dump': 'file', 'reparse': 'parse-file', 'strict': False,
               'paras': [{'F': ['w' + 'abcdefghij' * 30, 'deep/' + '/'.join(['very-long-component'] * 12) + '/*.c'],
                          'via': 'assign-in-doc', 'first': ['*']}],
               'names': ['w' + 'abcdefghij' * 30, ('w' + 'abcdefghij' * 30)[:79], ('w' + 'abcdefghij' * 30)[79:],
                         'deep/' + '/'.join(['very-long-component'] * 12) + '/x.c', 'deep/very-', 'long-component/x.c', 'x']}
    r = ctx.rng('long')
    for i in range(ctx.size(*SIZES['long'])):
        yield gen_long_case(r, wide)
    # -- paragraphs BUILT through the API whose patterns START with '.' or '/' ('./' '../' '...'): files as given, matches()
    #    for names with the same / with other leading characters, find, re-assignment, dump-then-parse
    if ctx.shard == 0:
        yield {'kind': 'long', 'cls': 'lead', 'dump': 'return', 'reparse': 'parse',
               'paras': [{'F': ['.gitignore', '.github/*', '../shared/?.h', './x', '/abs/*', '...'], 'via': 'create'}, {'L': 1},
                         {'F': ['gitignore', 'github/*', 'shared/?.h', 'x', 'abs/*'], 'via': 'create', 'seq': 'tuple'}],
               'names': ['.gitignore', 'gitignore', './.gitignore', '.github/a', 'github/a', '../shared/a.h', 'shared/a.h',
                         './shared/a.h', '.shared/a.h', './x', 'x', '/x', '/abs/a', 'abs/a', '//abs/a', '...', '..', '.', '',
                         '....', '/', './'],
               'reassign': [0, ['.gitignore', '.github/*', 'shared/?.h', './x', '/abs/*', '...']]}
        yield {'kind': 'long', 'cls': 'lead', 'dump': 'file', 'reparse': 'parse-bytesio', 'strict': False,
               'paras': [{'F': ['*'], 'via': 'create'}, {'F': ['./*', '../*'], 'via': 'assign', 'first': ['*']},
                         {'F': ['.', '..', '/', './', '../'], 'via': 'assign-in-doc', 'first': ['placeholder']},
                         {'F': ['.*', '/*/?'], 'via': 'create'}],
               'names': ['.', '..', '/', './', '../', './a', '../a', 'a', '.a', '/a/b', 'a/b', '/a', '.../a', '', '.x']}
    r = ctx.rng('lead')
    for i in range(ctx.size(*SIZES['lead'])):
        yield gen_lead_case(r, wide)
    # -- BYTES documents with '#' comment lines; the same document as str is the control
    if ctx.shard == 0:
        doc = ['# top of the file', 'Format: %s' % FORMAT, 'Upstream-Name: x', '', '# a comment-only block', '# between paragraphs',
               '', 'Files: *', 'Copyright: c0', 'License: L0', '', '# before the first field', 'Files: debian/*', '# inside',
               ' src/a', '#Files: old/*', ' .gitignore', '# behind the last pattern', 'Copyright: c1', 'License: L1', '# behind the '
               'last field', '', 'License: L2', '# in a text', ' text 2', '', '#', '', 'Copyright: c3', 'License: L3', 'Files:',
               '# first', ' debian/rules', '#Copyright: nobody', ' *.c', '', '# after the last paragraph', '', '# and more']
        paras = [{'F': ['*'], 'sep': 0, 'fo': 0}, {'F': ['debian/*', 'src/a', '.gitignore'], 'sep': 1, 'fo': 0}, {'L': 1},
                 {'F': ['debian/rules', '*.c'], 'sep': 2, 'fo': 1}]
        for src in sorted(CMT_PAIR):
            for strict in (True, False):
                case = {'kind': 'cmt', 'src': src, 'paras': paras, 'lines': doc,
                        'names': ['debian/rules', 'debian/x', 'src/a', 'a.c', 'debian/a.c', 'README', 'old/x', '.gitignore', 'src/a.in']}
                if not strict:
                    case['strict'] = False
                yield case
    r = ctx.rng('cmt')
    for i in range(ctx.size(*SIZES['cmt'])):
        yield gen_cmt_case(r, wide)
    # -- BYTES documents in which ONE line (a latin-1 author name in Copyright / Comment / a header field) is not valid UTF-8;
    #    Files fields and names with correct UTF-8 non-ASCII characters; the same document with that line valid is the control
    if ctx.shard == 0:
        paras = [{'F': ['*'], 'sep': 0, 'fo': 0, 'cc': 0}, {'F': ['docs/café/*', 'ünï/*.c', '中文/*'], 'sep': 1, 'fo': 2, 'pre': 1, 'cc': 1, 'lt': 1},
                 {'L': 1}, {'F': ['src/日本語/?.c', 'docs/café/README'], 'sep': 2, 'fo': 0, 'post': 1}]
        recs = enc_records(paras, ['contact', 'comment2'])
        doc = [x[0].replace('{A}', 'José García') for x in recs]
        enc_fixed_names = ['docs/café/a', 'docs/café/README', 'ünï/a.c', '中文/x', 'src/日本語/a.c', 'docs/cafÃ©/a', 'docs/cafe/a', 'README']
        for k, x in enumerate(recs):
            if x[4]:
                for n_, src in enumerate(('bytes-list', 'bytesio', 'disk-rb', 'bytes-gen')):
                    case = {'kind': 'enc', 'src': src, 'paras': paras, 'lines': doc, 'bad': k, 'benc': 'latin-1' if n_ % 2 == 0 else 'cp1252',
                            'names': enc_fixed_names}
                    if n_ >= 2:
                        case['strict'] = False
                    yield case
    r = ctx.rng('enc')
    for i in range(ctx.size(*SIZES['enc'])):
        yield gen_enc_case(r, wide)
    # -- documents whose Comment / License / Copyright / Disclaimer texts QUOTE PGP armor lines on continuation lines (leading
    #    blanks kept) in front of later Files paragraphs; str and bytes sources, strict and non-strict
    if ctx.shard == 0:
        doc = ['Format: %s' % FORMAT, 'Upstream-Name: x', 'Comment: signed like', ' -----BEGIN PGP SIGNED MESSAGE-----', ' Hash: SHA256',
               ' .', ' text', ' -----BEGIN PGP SIGNATURE-----', ' abcd', ' -----END PGP SIGNATURE-----', '',
               'Files: *', 'Copyright: c0', 'License: L0', ' text', '   -----BEGIN PGP SIGNATURE-----', ' more', '',
               'License: L1', ' -----END PGP SIGNATURE-----', ' tail', '',
               'Comment: x', '\t-----BEGIN PGP SIGNED MESSAGE-----', 'Files: debian/*', 'Copyright: c2', 'License: L2', '',
               'Copyright: c3', '   -----BEGIN PGP SIGNED MESSAGE-----', 'License: L3', 'Files: debian/rules', ' *.c', '',
               'Files: src/*', 'Copyright: c4', 'License: L4', 'Comment: -----BEGIN PGP SIGNATURE-----']
        paras = [{'F': ['*']}, {'L': 1}, {'F': ['debian/*']}, {'F': ['debian/rules', '*.c']}, {'F': ['src/*']}]
        for src in sorted(set(PGP_SRCS)):
            for strict in (True, False):
                case = {'kind': 'pgp', 'src': src, 'paras': paras, 'lines': doc,
                        'names': ['debian/rules', 'debian/x', 'src/a', 'a.c', 'src/a.c', 'README', 'debian/a.c']}
                if not strict:
                    case['strict'] = False
                yield case
    r = ctx.rng('pgp')
    for i in range(ctx.size(*SIZES['pgp'])):
        yield gen_pgp_case(r, wide)
    # -- parsed documents whose multi-line Files field has continuation lines led in by a Unicode blank other than space / tab:
    #    every blank of the class x every lead shape x str / bytes list sources (enumerated, spread over the shards), then random
    r = ctx.rng('ubl-enum')
    idx = 0
    for u in UBLANKS:
        for shape in sorted(set(UBL_SHAPES)):
            if shape in ('blank-then-nbsp', 'nbsp-then-blank') and u != '\u00a0':
                continue
            for src in ('str-list', 'bytes-list', 'stringio', 'bytesio'):
                idx += 1
                case = gen_ubl_case(r, wide, shape=shape, u=u)
                case['src'] = src
                if ctx.mine(idx):
                    yield case
    if ctx.shard == 0:
        for u in ('\u00a0',):
            paras = [{'F': ['*'], 'rows': [[None, ['*']]], 'fo': 0},
                     {'F': ['debian/*', 'src/a', '*.c', 'b?'], 'rows': [[None, ['debian/*']], [u, ['src/a']], [u, ['*.c', 'b?']]], 'fo': 0},
                     {'L': 1},
                     {'F': ['debian/rules', 'src/*.c', 'README'], 'rows': [[None, []], [' ', ['debian/rules']], [u + ' ', ['src/*.c']], [' ' + u, ['README']]], 'fo': 2}]
            for src in sorted(set(UBL_SRCS)):
                for strict in (True, False):
                    case = {'kind': 'ubl', 'src': src, 'paras': paras,
                            'names': ['src/a', 'a.c', 'bx', 'src/a.c', 'README', 'debian/rules', 'debian/x', u + 'src/a', 'src/a.in', 'x']}
                    if not strict:
                        case['strict'] = False
                    yield case
    r = ctx.rng('ubl')
    for i in range(ctx.size(*SIZES['ubl'])):
        yield gen_ubl_case(r, wide)
    # -- build histories through the public API (empty / parsed start, adds, re-assignments, queries, dump-then-parse)
    if ctx.shard == 0:
        yield {'kind': 'build', 'start': {'mode': 'empty', 'paras': []},
               'ops': [['q', 7], ['addF', ['*'], 'n1'], ['q', 7], ['addL', 'M1'], ['addL', 'M2'], ['q', 7],
                       ['addF', ['debian/*'], 'n2'], ['q', 7], ['addF', ['debian/rules'], 'n3'], ['addF', ['*.c'], 'n4'], ['q', 7],
                       ['set', 0, ['src/*']], ['q', 7]],
               'names': ['debian/rules', 'debian/x', 'a.c', 'debian/a.c', 'src/a', 'README']}
        yield {'kind': 'build', 'start': {'mode': 'parse', 'paras': [{'F': ['*'], 'sep': 0}, {'L': 1}, {'L': 1}]},
               'ops': [['q', 7], ['addF', ['debian/*'], 'n1'], ['q', 7]],
               'names': ['debian/rules', 'README']}
        yield {'kind': 'build', 'start': {'mode': 'parse-file', 'paras': [{'L': 1}, {'L': 1}]},
               'ops': [['q', 2], ['addF', ['a*'], 'n1'], ['addF', ['a?'], 'n2'], ['q', 7]],
               'names': ['ab', 'abc', 'b']}
    r = ctx.rng('build')
    for i in range(ctx.size(*SIZES['build'])):
        yield gen_build_case(r, wide)
    # -- documents built INCREMENTALLY through the Copyright API: stand-alone License paragraphs under the SAME short name as
    #    the license of earlier / later Files paragraphs, the same short name twice, License paragraphs before any Files paragraph
    if ctx.shard == 0:
        for start in ({'mode': 'empty', 'paras': []},
                      {'mode': 'parse', 'paras': [{'F': ['*'], 'syn': 'GPL-2+', 'id': 'id-p1', 'own': 0, 'sep': 0, 'fo': 0},
                                                  {'L': 'GPL-2+', 'tx': 9, 'id': 'id-p2'}]}):
            yield {'kind': 'incr', 'start': start, 'dump': 'return', 'reparse': ['parse', 'parse-file'], 'hl': 'GPL-2+',
                   'ops': [{'L': 'GPL-2+', 'tx': 1, 'id': 'id-1'}, {'L': 'Expat', 'tx': 2, 'id': 'id-2'},
                           {'L': 'GPL-2+', 'tx': 1, 'id': 'id-3'}, {'F': ['debian/*'], 'syn': 'GPL-2+', 'id': 'id-4', 'own': 0},
                           {'F': ['debian/rules', 'src/*'], 'syn': 'Expat', 'id': 'id-5', 'own': 0, 'lt': 1},
                           {'L': 'Expat', 'tx': 3, 'id': 'id-6'}, {'F': ['src/*.c'], 'syn': 'GPL-2+', 'id': 'id-7', 'own': 0},
                           {'L': 'GPL-2+', 'tx': 4, 'id': 'id-8'}, {'F': ['*.c'], 'syn': 'GPL-2+', 'id': 'id-9', 'own': 'u'}],
                   'names': ['debian/rules', 'debian/x', 'src/a.c', 'src/a', 'a.c', 'README', 'debian/rules.in']}
    r = ctx.rng('incr')
    for i in range(ctx.size(*SIZES['incr'])):
        yield gen_incr_case(r, wide)
    # -- raw pattern lists (whitespace / newlines) through globs_to_re
    r = ctx.rng('raw')
    for i in range(ctx.size(*SIZES['raw'])):
        pats = gen_list(r, wide, raw=True)
        gl = G.GlobList(pats)
        yield {'kind': 'raw', 'pats': pats, 'names': gen_names(r, [gl], 5 if gl.legal else 1)}


# ---------------------------------------------------------------------------
# oracle + classification

_MISS = object()


def oracle(ctx, gl, name):
    """Expected answer for a legal list; also applies the non-triviality rule
    and cross-checks the two model algorithms.  Returns None if the model is
    inconsistent with itself (recorded as inconclusive, nothing is accused)."""
    if getattr(gl, 'cheap', False):
        return oracle_long(ctx, gl, name)
    want = gl.matches(name)
    d = gl.distance(name)
    if (d == 0) != want:
        ctx.inconclusive.append('reference model inconsistent on %r / %r: nfa=%r distance=%r' % (gl.patterns, name, want, d))
        return None
    if d <= 2 and (len(gl.patterns) >= 2 or gl.wild):
        ctx.nontrivial(case={'pats': gl.patterns, 'name': name})
        ctx.count('nontrivial:hit' if want else 'nontrivial:near-miss')
    return want


def oracle_long(ctx, gl, name):
    """The oracle for LONG pattern lists (hundreds of characters): the position-set matcher, cross-checked on EVERY
    evaluation against the single-backtrack-point matcher and, where it is affordable (name length x total pattern
    length <= 1200, and every 24th evaluation up to 20000), against the edit-distance DP as well.  Answers are memoised per
    (list object, name): the stages of one case (built / re-assigned / re-parsed) ask the same questions again."""
    memo = gl.__dict__.setdefault('_c16_memo', {})
    if name in memo:
        return memo[name]
    pre = gl.cheap if isinstance(gl.cheap, str) else 'long'      # 'long' / 'lead': which class the list belongs to
    want = gl.matches(name)
    other = gl.matches_greedy(name)
    ok = other == want
    _LONG_SEQ[0] += 1
    cost = len(name) * gl.__dict__.setdefault('_c16_size', sum(len(t) for t in gl.toks))
    if ok and (cost <= 1200 or (_LONG_SEQ[0] % 24 == 0 and cost <= 20000)):
        ctx.count('%s:oracle-cross-checked-with-distance-dp' % pre)
        ok = (gl.distance(name) == 0) == want
    if not ok:
        ctx.inconclusive.append('reference model inconsistent on %r / %r: position sets say %r, backtrack-point matcher %r'
                                % (gl.patterns, name, want, other))
        memo[name] = None
        return None
    if len(gl.patterns) >= 2 or gl.wild:
        # names of this class are derived from the patterns themselves (whole pattern, its pieces, glued neighbours, one edit)
        ctx.nontrivial(case={'pats': gl.patterns, 'name': name})
        ctx.count('nontrivial:hit' if want else 'nontrivial:near-miss')
        ctx.count('%s:nontrivial' % pre)
    memo[name] = want
    return want


_LONG_SEQ = [0]


def anchoring_confirmed(mk, gl, name):
    """Diagnostic experiment on the live code (classification only): some
    non-last pattern g matches a proper prefix of `name`; alone or as LAST
    alternative it correctly rejects the name, as a NON-LAST alternative it
    accepts it.  Only then is a wrong True filed under the anchoring mechanism."""
    sentinel = 'yy' if name.startswith('z') else 'zz'
    for g, t in zip(gl.patterns[:-1], gl.toks[:-1]):
        if G.matches_prefix(t, name) and not G.matches(t, name):
            try:
                alone = call_matches(mk([g]), name)
                first = call_matches(mk([g, sentinel]), name)
                last = call_matches(mk([sentinel, g]), name)
            except Exception:
                return False
            if alone == ('value', False) and last == ('value', False) and first == ('value', True):
                return True
    return False


def history_dependent(mk, gl, name, observed):
    """Diagnostic experiment (classification only): a FRESH paragraph holding the
    same pattern list answers differently from the paragraph whose `files` was
    re-assigned -> the answer depends on the history, i.e. it is stale."""
    try:
        fresh = call_matches(mk(gl.patterns), name)
    except Exception:
        return False
    return fresh[0] != observed[0] or (fresh[0] == 'value' and bool(fresh[1]) != bool(observed[1]))


def classify_match(mk, gl, name, want, got, earlier=()):
    """Mechanism key for a matches() answer that differs from the oracle."""
    if earlier and history_dependent(mk, gl, name, ('value', got)):
        return 'stale-pattern-after-files-reassigned'
    if want is False and got is True and len(gl.patterns) >= 2 and gl.prefix_semantics(name) is True \
            and anchoring_confirmed(mk, gl, name):
        return 'non-last-alternative-not-end-anchored'
    if want is False:
        return 'matches-accepts-non-matching-name'
    return 'matches-rejects-matching-name'


def call_matches(para, name):
    from debian import copyright as cp
    try:
        got = para.matches(name)
    except cp.MachineReadableFormatError as e:
        return ('format-error', str(e))
    except Exception as e:      # any other exception type is itself an observation
        return ('other-error', '%s: %s' % (type(e).__name__, e))
    return ('value', got)


def check_matches(ctx, para, gl, name, small, earlier=(), mk=None):
    """Compare para.matches(name) with the oracle.  Returns the library's boolean
    answer (or None if it raised) and the mechanism key reported (or None).
    `earlier`: pattern lists this paragraph held before (non-empty => its
    `files` was re-assigned); `mk`: factory for fresh paragraphs, used only by
    the diagnostic experiments that choose the mechanism key."""
    mk = mk or make_para
    kind, got = call_matches(para, name)
    if not gl.legal:
        ctx.mon('M.error')
        ctx.count('op:matches-illegal-list')
        if kind == 'format-error':
            return None, None
        if kind == 'other-error':
            key = 'illegal-escape-wrong-exception-type'
            ctx.violation(key, 'patterns %r contain an illegal escape (%s); matches(%r) raised %s instead of '
                          'MachineReadableFormatError' % (gl.patterns, gl.illegal, name, got), small)
            return None, key
        key = 'illegal-escape-not-reported'
        if earlier and history_dependent(mk, gl, name, (kind, got)):
            key = 'stale-pattern-after-files-reassigned'
        ctx.violation(key, 'patterns %r contain an illegal escape (%s); matches(%r) returned %r instead of raising '
                      'MachineReadableFormatError' % (gl.patterns, gl.illegal, name, got), small)
        return got, key
    want = oracle(ctx, gl, name)
    if want is None:
        return None, None
    ctx.mon('M.match')
    ctx.count('op:matches')
    if kind == 'format-error':
        key = 'legal-pattern-rejected-as-format-error'
        if earlier and history_dependent(mk, gl, name, (kind, got)):
            key = 'stale-pattern-after-files-reassigned'
        ctx.violation(key, 'all of %r are legal globs but matches(%r) raised MachineReadableFormatError(%s)'
                      % (gl.patterns, name, got), small)
        return None, key
    if kind == 'other-error':
        key = 'matches-raises-unexpected-exception'
        ctx.violation(key, 'matches(%r) with patterns %r raised %s' % (name, gl.patterns, got), small)
        return None, key
    if got is not True and got is not False:
        got = bool(got)
    if got != want:
        key = classify_match(mk, gl, name, want, got, earlier)
        ctx.violation(key, 'patterns %r, name %r: matches() returned %r, whole-name glob semantics say %r'
                      % (gl.patterns, name, got, want), small)
        return got, key
    return got, None


def make_para(pats, tag='c'):
    from debian import copyright as cp
    return cp.FilesParagraph.create(list(pats), tag, cp.License('L'))


_RAW_CLS = []
_RAW_SEQ = [0]


def raw_paragraph(pats, token):
    """A real FilesParagraph (real files_pattern / matches / cache) whose `files`
    property yields `pats` verbatim - the only way to push patterns containing
    whitespace through matches()."""
    from debian import copyright as cp, deb822
    if not _RAW_CLS:
        class RawFilesParagraph(cp.FilesParagraph):
            files = property(lambda self: self._vp_files)
        _RAW_CLS.append(RawFilesParagraph)
    d = deb822.Deb822()
    d['Files'] = token
    p = _RAW_CLS[0](d, _internal_validate=False)
    p._vp_files = tuple(pats)
    return p


def _raw_fresh(pats):
    _RAW_SEQ[0] += 1
    return raw_paragraph(pats, 'raw%d' % _RAW_SEQ[0])


# ---------------------------------------------------------------------------

def run_para(ctx, case):
    pats = case['pats']
    gl = G.GlobList(pats)
    para = make_para(pats)
    names = case['names']
    ctx.evaluations += max(0, len(names) - 1)
    ctx.count('lists:%d-patterns' % min(len(pats), 4))
    for name in names:
        check_matches(ctx, para, gl, name, {'kind': 'para', 'pats': pats, 'names': [name]})
    if not gl.legal:
        # a fresh paragraph per query too: the error must not depend on a previous failed attempt
        check_matches(ctx, make_para(pats), gl, names[0] if names else 'a', {'kind': 'para', 'pats': pats, 'names': names[:1] or ['a']})


def run_enum(ctx, case):
    pats = case['pats']
    gl = G.GlobList(pats)
    para = make_para(pats)
    n = 0
    ctx.count('enum:lists')
    for name in _all_strings(case['alpha'], case['maxlen']):
        n += 1
        check_matches(ctx, para, gl, name, {'kind': 'para', 'pats': pats, 'names': [name]})
        if not gl.legal and n >= 2:
            break
    ctx.evaluations += n - 1
    ctx.count('enum:evaluations', n)


def run_hist(ctx, case):
    ops = case['ops']
    para = None
    cur = None
    earlier = []           # GlobLists assigned before the current one (most recent first)
    unobserved = 0         # assignments since the last matches() call
    for i, (op, arg) in enumerate(ops):
        if op == 'set':
            gl = G.GlobList(arg)
            if para is None:
                para = make_para(arg)
            else:
                para.files = list(arg)
                earlier.insert(0, cur)
                unobserved += 1
            cur = gl
            ctx.count('op:files-assign')
        else:
            small = {'kind': 'hist', 'ops': ops[:i + 1]}
            if earlier:
                distinguishing = False
                if cur.legal:
                    w = cur.matches(arg)
                    distinguishing = any((not o.legal) or o.matches(arg) != w for o in earlier[:3])
                else:
                    distinguishing = any(o.legal for o in earlier[:3])
                if distinguishing:
                    ctx.mon('M.stale')
                    if unobserved >= 2:
                        ctx.count('op:match-after-2+-unobserved-assignments')
            check_matches(ctx, para, cur, arg, small, earlier[:4])
            unobserved = 0
            ctx.evaluations += 1
    ctx.evaluations -= 1


def para_lines(i, p):
    """Line bodies (no end of line) of paragraph number i.  `fo` places the Files field first / last / in the middle of
    a Files paragraph (default first); fo == 2 also ends the paragraph in a continuation line of the License text."""
    if 'F' not in p:
        return ['License: L%d' % i, ' text %d' % i]
    pats = p['F']
    sep = p.get('sep', 0)
    if sep == 0:
        f = ['Files: %s' % ' '.join(pats)]
    elif sep == 1:
        f = ['Files: %s' % pats[0]] + [' %s' % x for x in pats[1:]]
    else:
        f = ['Files:'] + [' %s' % x for x in pats]
    c = ['Copyright: c%d' % i]
    fo = p.get('fo', 0)
    if fo == 0:
        return f + c + ['License: L%d' % i]
    if fo == 1:
        return c + ['License: L%d' % i] + f
    return c + f + ['License: L%d' % i, ' text %d' % i]


def doc_lines(paras, seps=None, plain=False):
    """The document as line bodies.  seps[i] is the separator run in front of paragraph i (default: one empty line);
    plain=True replaces every whitespace-only separator line by an empty one (the control document)."""
    out = ['Format: %s' % FORMAT, 'Upstream-Name: x']
    for i, p in enumerate(paras):
        run = seps[i] if seps else ['']
        out.extend(('' if plain else l) for l in run)
        out.extend(para_lines(i, p))
    return out


def doc_text(paras, seps=None):
    return ''.join(l + '\n' for l in doc_lines(paras, seps))


def _scratch_path(ctx):
    """A real OS file for the on-disk sources: RAM-backed when the box has /dev/shm (rewritten once per case)."""
    d = getattr(ctx, '_c16_fdir', None)
    if d is None:
        if os.path.isdir('/dev/shm') and os.access('/dev/shm', os.W_OK):
            d = tempfile.mkdtemp(prefix='vp-%s-' % PROP, dir='/dev/shm')
            ctx._tmpdirs.append(d)
        else:
            d = ctx.tmpdir()
        ctx._c16_fdir = d
    return os.path.join(d, 'copyright')


def parse_doc(ctx, lines, mode, strict=True):
    """Copyright() over the document given as line bodies, handed over as the requested kind of source.  strict=False
    => Copyright(..., strict=False); warnings it emits are counted (ns:note:warning:*), never judged."""
    from debian import copyright as cp
    if strict:
        mk = cp.Copyright
    else:
        def mk(src):
            with warnings.catch_warnings(record=True) as caught:
                warnings.simplefilter('always')
                c = cp.Copyright(src, strict=False)
            for w in caught:
                ctx.count('ns:note:warning:%s' % w.category.__name__)
            return c
    if mode == 'parse':
        return mk([l + '\n' for l in lines])
    if mode == 'parse-noeol':
        return mk(list(lines))
    text = ''.join(l + '\n' for l in lines)
    if mode == 'parse-file':
        return mk(io.StringIO(text))
    if mode == 'parse-bytes':
        return mk([(l + '\n').encode('utf-8') for l in lines])
    if mode == 'parse-bytesio':
        return mk(io.BytesIO(text.encode('utf-8')))
    if mode in ('parse-disk', 'parse-disk-rb'):
        path = _scratch_path(ctx)
        with open(path, 'wb') as f:
            f.write(text.encode('utf-8'))
        f = open(path, 'rb') if mode == 'parse-disk-rb' else open(path, 'r', encoding='utf-8', newline='')
        try:
            return mk(f)
        finally:
            f.close()
    raise ValueError('unknown document source %r' % (mode,))


def build_doc(ctx, case):
    from debian import copyright as cp
    mode = case['mode']
    paras = case['paras']
    if mode == 'build':
        c = cp.Copyright()
        # in document order: add_files_paragraph inserts after the last Files paragraph,
        # i.e. in front of the standalone License paragraphs added so far
        for i, p in enumerate(paras):
            if 'F' in p:
                c.add_files_paragraph(make_para(p['F'], 'c%d' % i))
            else:
                c.add_license_paragraph(cp.LicenseParagraph.create(cp.License('L%d' % i, 'text')))
        return c
    return parse_doc(ctx, doc_lines(paras, case.get('seps')), mode, case.get('strict', True))


def _files_view(c):
    """What all_files_paragraphs() shows: (unique Copyright id, pattern tuple) per paragraph, in its order."""
    return [(p.copyright, tuple(p.files)) for p in c.all_files_paragraphs()]


def _written_ids(paras):
    return [('c%d' % i) if 'F' in p else ('L%d' % i) for i, p in enumerate(paras)]


def _written_files_view(paras):
    return [('c%d' % i, tuple(p['F'])) for i, p in enumerate(paras) if 'F' in p]


def ws_count_document(ctx, paras, seps, mode, prefix='ws'):
    """Evidence counters for one parsed document with whitespace-only separator lines: which paragraph kinds stand on
    either side of a run containing such a line, what the line follows, the line classes, the source."""
    ctx.count('%s:documents' % prefix)
    ctx.count('%s:source:%s' % (prefix, mode))
    ctx.count('%s:source-family:%s' % (prefix, 'list' if mode in ('parse', 'parse-noeol', 'parse-bytes') else 'file'))
    kinds = ['Files' if 'F' in p else 'License' for p in paras]
    for i, run in enumerate(seps):
        wsl = [l for l in run if is_ws_line(l)]
        if not wsl:
            continue
        left = 'header' if i == 0 else kinds[i - 1]
        ctx.count('%s:sep:%s/%s' % (prefix, left, kinds[i]))
        ctx.count('%s:run:%s' % (prefix, 'only-whitespace-lines' if len(wsl) == len(run) else
                                 ('whitespace-line-first-then-empty' if is_ws_line(run[0]) else 'empty-line-first')))
        if len(run) >= 2:
            ctx.count('%s:run:2+-lines' % prefix)
        for l in wsl:
            ctx.count('%s:line:%s' % (prefix, 'blanks' if '\t' not in l else ('tabs' if ' ' not in l else 'blanks+tabs')))
        if is_ws_line(run[0]) and i > 0:
            lp = paras[i - 1]
            last = para_lines(i - 1, lp)[-1]
            if last.startswith(' '):
                ctx.count('%s:whitespace-line-directly-after-continuation-line' % prefix)
            if 'F' in lp and lp.get('fo', 0) == 1:
                ctx.count('%s:whitespace-line-directly-after-files-value' % prefix)


def ws_control(ctx, paras, seps, mode, strict=True, single=False):
    """Differential control for a disagreement on a document with whitespace-only separator lines: the SAME document
    with every such line replaced by an empty line (single=True: with exactly ONE empty line between paragraphs, the
    canonical layout), through the same kind of source and the same `strict`.  Returns (files view, ids of all non-header
    paragraphs), or the exception it raised."""
    try:
        c = parse_doc(ctx, doc_lines(paras, None if single else seps, plain=True), mode, strict)
        return _files_view(c), _para_ids(c.all_paragraphs())
    except Exception as e:
        return e


def ws_controls(ctx, paras, seps, mode, strict=True):
    """Which control shows exactly the Files paragraphs written?  -> ('whitespace-only', ...) when the same document with
    EMPTY separator lines (same number of them) does: the disagreement is down to the whitespace-only lines;
    ('several-lines', ...) when only the document with ONE empty line per gap does: it is down to gaps made of several
    separator lines, whitespace-only or not; ('strict=False', ...) for a document parsed with strict=False when only the
    canonical document parsed with the DEFAULT strict=True does: strict=False itself changes what a well-formed document
    contains; (None, controls) when none does: harness sanity, nothing is accused."""
    want = _written_files_view(paras)

    def ok(x):
        return not isinstance(x, Exception) and x[0] == want

    ctl = [ws_control(ctx, paras, seps, mode, strict)]
    if ok(ctl[-1]):
        return 'whitespace-only', ctl
    if any(len(run) > 1 for run in seps):
        ctl.append(ws_control(ctx, paras, seps, mode, strict, single=True))
        if ok(ctl[-1]):
            return 'several-lines', ctl
    if not strict:
        ctl.append(ws_control(ctx, paras, seps, mode, True, single=True))
        if ok(ctl[-1]):
            return 'strict=False', ctl
    return None, ctl


NS_SUFFIX = '/parsed-with-strict=False'


def ws_judge_parsed(ctx, c, paras, seps, mode, small, prefix='ws', strict=True):
    """all_files_paragraphs() of a parsed document with whitespace-only separators against what was written.  True =>
    agrees (go on with the queries); False => recorded (violation if the control document with empty separator lines
    does show what was written, else harness sanity => inconclusive)."""
    ctx.mon('M.%s.order' % prefix)
    want = _written_files_view(paras)
    try:
        got = _files_view(c)
    except Exception as e:
        got = '%s: %s' % (type(e).__name__, e)
    if got == want:
        full = _para_ids(c.all_paragraphs())
        if full != _written_ids(paras):
            # same Files paragraphs, other paragraphs differ: no effect on any resolution - recorded, not judged here
            ctx.count('%s:note:non-files-paragraphs-differ-from-written' % prefix)
            ctx.extra.setdefault('ws_notes', [])
            if len(ctx.extra['ws_notes']) < 3:
                ctx.extra['ws_notes'].append('written %r, all_paragraphs() shows %r' % (_written_ids(paras), full))
        return True
    which, ctl = ws_controls(ctx, paras, seps, mode, strict)
    if which is None:
        ctx.inconclusive.append('document did not parse to the pattern lists written, with whitespace-only AND with '
                                'empty separator lines (AND with one empty line per gap): wrote %r, got %r / %r'
                                % (want, got, ctl))
        return False
    where = {'whitespace-only': 'whitespace-only-separator', 'several-lines': 'gap-of-several-separator-lines',
             'strict=False': 'any-paragraph-separator'}[which]
    if isinstance(got, str):
        key = 'files-paragraph-listing-raises-on-%ss' % where
    elif len(got) < len(want):
        key = 'files-paragraph-lost-at-%s' % where
    elif len(got) > len(want):
        key = 'extra-files-paragraph-at-%s' % where
    else:
        key = 'files-paragraphs-differ-at-%s' % where
    ctx.violation(key + ('' if strict else NS_SUFFIX),
                  'all_files_paragraphs() of the parsed document (source %s%s, separator runs %r) shows %r; written were %r, '
                  'and the same document with %s shows exactly those'
                  % (mode, '' if strict else ', Copyright(..., strict=False)', seps, got, want,
                     {'whitespace-only': 'empty separator lines',
                      'several-lines': 'ONE empty line between paragraphs (the same document with as many, but empty, separator '
                                       'lines does not)',
                      'strict=False': 'one empty line between paragraphs parsed with the default strict=True (parsed with '
                                      'strict=False it does not)'}[which]), small)
    return False


def ws_rejected(ctx, exc, paras, seps, mode, small, strict=True):
    """Copyright() raised on a document with whitespace-only separators.  True => recorded as a violation (the control
    document parses to what was written); False => not a separator matter, the caller re-raises."""
    which, ctl = ws_controls(ctx, paras, seps, mode, strict)
    if which is None:
        return False
    ctx.violation({'whitespace-only': 'document-with-whitespace-only-separators-rejected',
                   'several-lines': 'document-with-gaps-of-several-separator-lines-rejected',
                   'strict=False': 'well-formed-document-rejected'}[which] + ('' if strict else NS_SUFFIX),
                  'Copyright(%s) over source %s with separator runs %r raised '
                  '%s: %s; the same document with %s parses to the Files paragraphs written'
                  % ('' if strict else '..., strict=False', mode, seps, type(exc).__name__, exc,
                     {'whitespace-only': 'empty separator lines', 'several-lines': 'one empty line between paragraphs',
                      'strict=False': 'one empty line between paragraphs and the default strict=True'}[which]), small)
    return True


def doc_queries(ctx, case, c, fps, lists, names, earlier_by_idx, phase, small_of=None, mon='M.find', cnt='find', memo=None):
    """find_files_paragraph(name) and every paragraph's matches(name) for each
    name, judged against `lists` (the pattern lists of the document's Files
    paragraphs in document order; `fps` are the live objects in that order).
    Returns one entry per name: ('value', index | None | _MISS) /
    ('format-error', msg) / ('other-error', msg)."""
    from debian import copyright as cp
    any_illegal = any(not gl.legal for gl in lists)
    results = []
    for name in names:
        if small_of is not None:
            small = small_of(name)
        else:
            small = dict(case)
            small['names'] = [name]
            if not phase:
                small.pop('reassign', None)
        # --- find_files_paragraph first (cold caches on the first name)
        try:
            res = ('value', c.find_files_paragraph(name))
        except cp.MachineReadableFormatError as e:
            res = ('format-error', str(e))
        except Exception as e:
            res = ('other-error', '%s: %s' % (type(e).__name__, e))
        results.append(res if res[0] != 'value' else ('value', _index_of(fps, res[1])))
        # --- every paragraph's own matches()
        lib, keys = [], []
        for k, (p, gl) in enumerate(zip(fps, lists)):
            if memo is not None:
                # build histories: a (paragraph object, pattern list, name) triple is judged by the oracle once per
                # history; at later steps the same answer is still observed through find_files_paragraph itself
                mk_ = (id(p), tuple(gl.patterns), name)
                if mk_ in memo:
                    got, key = memo[mk_]
                else:
                    got, key = memo[mk_] = check_matches(ctx, p, gl, name, small, earlier_by_idx.get(k, ()))
            else:
                got, key = check_matches(ctx, p, gl, name, small, earlier_by_idx.get(k, ()))
            lib.append(got)
            if key:
                keys.append(key)
        ctx.count('op:find%s' % phase)
        if res[0] == 'other-error':
            ctx.mon(mon)
            ctx.violation('find-raises-unexpected-exception', 'find_files_paragraph(%r) raised %s' % (name, res[1]), small)
            continue
        if any_illegal:
            ctx.mon(mon + '-illegal')
            if res[0] == 'format-error':
                continue
            # accepted only if it is the correct last match and nothing illegal follows it
            legal_hits = [k for k, gl in enumerate(lists) if gl.legal and gl.matches(name)]
            last_illegal = max(k for k, gl in enumerate(lists) if not gl.legal)
            got_idx = _index_of(fps, res[1])
            if not (legal_hits and got_idx == legal_hits[-1] and got_idx > last_illegal):
                ctx.violation('illegal-escape-not-reported', 'a Files paragraph has an illegal escape (%s) but '
                              'find_files_paragraph(%r) returned paragraph #%r without reporting it'
                              % ([gl.illegal for gl in lists if not gl.legal], name, got_idx), small)
            continue
        ctx.mon(mon)
        hits = [k for k, gl in enumerate(lists) if gl.matches(name)]
        want_idx = hits[-1] if hits else None
        if len(hits) >= 2:
            ctx.count(cnt + ':several-paragraphs-match')
        elif hits:
            ctx.count(cnt + ':one-paragraph-matches')
        else:
            ctx.count(cnt + ':none-matches')
        if res[0] == 'format-error':
            ctx.violation('legal-pattern-rejected-as-format-error', 'find_files_paragraph(%r) raised '
                          'MachineReadableFormatError(%s) although every glob is legal' % (name, res[1]), small)
            continue
        got_idx = _index_of(fps, res[1])
        if got_idx == want_idx:
            continue
        lib_hits = [k for k, g in enumerate(lib) if g]
        lib_last = lib_hits[-1] if lib_hits else None
        if got_idx == lib_last and keys:
            # find is consistent with what matches() answered; the mechanism is the one already reported there
            key = keys[-1]
        elif got_idx is not _MISS and lib_hits and got_idx == lib_hits[0] and len(lib_hits) > 1:
            key = 'find-first-match-wins'
        elif got_idx is None:
            key = 'find-misses-matching-paragraph'
        elif got_idx is _MISS:
            key = 'find-returns-foreign-object'
        else:
            key = 'find-not-last-matching-paragraph'
        ctx.violation(key, 'find_files_paragraph(%r): got Files paragraph #%s, want #%s (the last one whose globs match); '
                      'pattern lists in document order: %r' % (name, 'foreign' if got_idx is _MISS else got_idx, want_idx,
                                                              [gl.patterns for gl in lists]), small)
    return results


def _index_of(fps, obj):
    """Which Files paragraph was returned: by identity, else by the unique id
    every generated paragraph carries in its Copyright field."""
    if obj is None:
        return None
    for k, p in enumerate(fps):
        if p is obj:
            return k
    try:
        tag = obj.copyright
        hits = [k for k, p in enumerate(fps) if p.copyright == tag]
        if len(hits) > 1:
            # kind 'incr': several paragraphs may name the same copyright holder; the unique id stands in Comment
            cid = obj.comment
            hits = [k for k in hits if fps[k].comment == cid]
    except Exception:
        return _MISS
    return hits[0] if len(hits) == 1 else _MISS


def run_doc(ctx, case):
    seps = case.get('seps')
    if seps and (case.get('strict') is False or any(len(run) > 1 or is_ws_line(l) for run in seps for l in run)):
        return run_wsdoc(ctx, case)
    c = build_doc(ctx, case)
    want_lists = [G.GlobList(p['F']) for p in case['paras'] if 'F' in p]
    fps = list(c.all_files_paragraphs())
    ctx.count('doc:%s' % case['mode'])
    ctx.count('doc:%d-files-paragraphs' % min(len(want_lists), 7))
    # harness sanity (not the property): the document must contain what was written
    if len(fps) != len(want_lists) or any(tuple(p.files) != tuple(gl.patterns) for p, gl in zip(fps, want_lists)):
        ctx.inconclusive.append('document did not parse to the pattern lists written: wrote %r, got %r'
                                % ([gl.patterns for gl in want_lists], [list(p.files) for p in fps]))
        return
    names = case['names']
    ctx.evaluations += max(0, len(names) - 1)
    doc_queries(ctx, case, c, fps, want_lists, names, {}, '')
    if case.get('reassign'):
        k, newp = case['reassign']
        if k < len(fps):
            old = want_lists[k]
            fps[k].files = list(newp)
            want_lists = list(want_lists)
            want_lists[k] = G.GlobList(newp)
            ctx.count('op:files-assign')
            for name in names:
                if old.legal and want_lists[k].legal and old.matches(name) != want_lists[k].matches(name):
                    ctx.mon('M.stale')
            doc_queries(ctx, case, c, fps, want_lists, names, {k: [old]}, '-after-reassign')


def run_wsdoc(ctx, case):
    """A parsed document whose paragraphs are separated by whitespace-only lines (mixed with empty ones): judged like
    every other parsed document - all_files_paragraphs() against what was written (M.ws.order), find_files_paragraph
    against the last-match rule (M.ws.find), every paragraph's matches() against the glob model (M.match)."""
    paras, seps, mode, names = case['paras'], case['seps'], case['mode'], case['names']
    strict = case.get('strict', True)
    pre = 'ws' if strict else 'ws-ns'          # counters / monitors of the non-strict class are kept apart
    small = dict(case)
    small['names'] = names[:1]
    ws_count_document(ctx, paras, seps, mode, pre)
    if not strict:
        ctx.count('ws-ns:longest-separator-run:%d-lines' % min(4, max(len(run) for run in seps)))
    try:
        c = build_doc(ctx, case)
    except Exception as e:
        ctx.mon('M.%s.order' % pre)
        if ws_rejected(ctx, e, paras, seps, mode, small, strict):
            return
        raise
    if not ws_judge_parsed(ctx, c, paras, seps, mode, small, pre, strict):
        return
    want_lists = [G.GlobList(p['F']) for p in paras if 'F' in p]
    fps = list(c.all_files_paragraphs())
    ctx.count('%s:%d-files-paragraphs' % (pre, min(len(want_lists), 7)))
    ctx.evaluations += max(0, len(names) - 1)
    before = ctx.counters['op:matches']
    doc_queries(ctx, case, c, fps, want_lists, names, {}, '-' + pre, mon='M.%s.find' % pre, cnt='%s-find' % pre)
    ctx.count('%s:matches-observed' % pre, ctx.counters['op:matches'] - before)
    if any(not gl.legal for gl in want_lists):
        return
    # which Files paragraphs stand directly in front of / behind a run with a whitespace-only line
    kinds = [('F' in p) for p in paras]
    fidx, k = {}, 0
    for i, isf in enumerate(kinds):
        if isf:
            fidx[i] = k
            k += 1
    next_to_ws = set()
    for i, run in enumerate(seps):
        if any(is_ws_line(l) for l in run):
            if kinds[i]:
                next_to_ws.add(fidx[i])
            if i > 0 and kinds[i - 1]:
                next_to_ws.add(fidx[i - 1])
    for name in names:
        hits = [j for j, gl in enumerate(want_lists) if gl.matches(name)]
        if hits and hits[-1] in next_to_ws:
            ctx.count('%s-find:resolves-to-paragraph-next-to-whitespace-only-separator' % pre)
        if hits and any(j in next_to_ws for j in hits[:-1]):
            ctx.count('%s-find:shadowed-match-next-to-whitespace-only-separator' % pre)
        if not hits and next_to_ws:
            ctx.count('%s-find:none-matches-in-document-with-whitespace-only-separator' % pre)


# ---------------------------------------------------------------------------
# BYTES documents with '#' comment lines (kind 'cmt')

_CMT_FIELD_RE = None


def cmt_classify(lines):
    """One label per maximal run of comment lines: where it stands in the document (evidence counters only)."""
    import re
    global _CMT_FIELD_RE
    if _CMT_FIELD_RE is None:
        _CMT_FIELD_RE = re.compile(r'^#\s?[A-Za-z-]+:')
    labels = []
    n = len(lines)
    last_content = max([k for k, l in enumerate(lines) if l.strip(' \t') and not is_comment_line(l)] or [-1])
    cur, seen, i = None, False, 0          # cur: field the previous line belongs to (None: start of file / after a separator)
    while i < n:
        l = lines[i]
        if not is_comment_line(l):
            if l.strip(' \t') == '':
                cur = None
            elif l[0] not in ' \t':
                cur = l.split(':', 1)[0]
                seen = True
            i += 1
            continue
        j = i
        while j < n and is_comment_line(lines[j]):
            j += 1
        nxt = lines[j] if j < n else None
        if i > last_content:
            lab = 'after-last-paragraph'
        elif cur is None:
            if nxt is not None and nxt.strip(' \t') == '':
                lab = 'comment-only-block-between-paragraphs' if seen else 'top-of-file'
            else:
                lab = 'before-first-field-of-paragraph' if seen else 'top-of-file'
        elif nxt.strip(' \t') == '':
            lab = 'after-last-field-of-paragraph'
        elif nxt[0] in ' \t':
            lab = 'inside-files-field' if cur == 'Files' else 'inside-other-multi-line-field'
        else:
            lab = 'between-files-field-and-next-field' if cur == 'Files' else 'between-fields'
        labels.append(lab)
        if any(_CMT_FIELD_RE.match(x) for x in lines[i:j]):
            labels.append('commented-out-field-line')
            if lab in ('inside-files-field', 'between-files-field-and-next-field'):
                labels.append('commented-out-field-line-inside-files-field')
        i = j
    return labels


def cmt_parse(ctx, lines, src, strict=True, final_eol=True, raw=None, note='ns'):
    """Copyright() over the document given as line bodies, handed over as the requested kind of bytes / str source.  `raw`:
    the line bodies as BYTES, already encoded (kind 'enc': one of them is not valid UTF-8) - bytes sources only; warnings
    (UnicodeWarning of the decoder) are then recorded and counted as <note>:note:warning:*, never judged."""
    from debian import copyright as cp

    def mk(source):
        if strict and raw is None:
            return cp.Copyright(source)
        with warnings.catch_warnings(record=True) as caught:
            if strict:
                # the filters of the process stay in force (warnings-as-errors shards); only the decoder's own category is let through
                warnings.simplefilter('always', UnicodeWarning)
                c = cp.Copyright(source)
            else:
                warnings.simplefilter('always')
                c = cp.Copyright(source, strict=False)
        for w in caught:
            ctx.count('%s:note:warning:%s' % (note, w.category.__name__))
        return c

    is_bytes = src.startswith(('bytes', 'disk-rb'))
    if is_bytes:
        bodies = list(raw) if raw is not None else [l.encode('utf-8') for l in lines]
        nl, empty = b'\n', b''
    else:
        bodies = list(lines)
        nl, empty = '\n', ''
    with_eol = [l + nl for l in bodies]
    if with_eol and not final_eol:
        with_eol[-1] = bodies[-1]
    blob = empty.join(with_eol)
    if src in ('bytes-list', 'str-list'):
        return mk(list(with_eol))
    if src in ('bytes-list-noeol', 'str-list-noeol'):
        return mk(list(bodies))
    if src in ('bytes-tuple', 'str-tuple'):
        return mk(tuple(with_eol))
    if src in ('bytes-gen', 'str-gen'):
        return mk(l for l in with_eol)
    if src in ('bytes-iter', 'str-iter'):
        return mk(iter(list(with_eol)))
    if src == 'bytesio':
        return mk(io.BytesIO(blob))
    if src == 'bytes-buffered':
        return mk(io.BufferedReader(io.BytesIO(blob)))
    if src == 'stringio':
        return mk(io.StringIO(blob))
    if src in ('bytes-whole', 'str-whole'):
        return mk(blob)
    if src in ('disk-rb', 'disk-rb-raw', 'disk-text'):
        path = _scratch_path(ctx)
        with open(path, 'wb') as f:
            f.write(blob if is_bytes else blob.encode('utf-8'))
        if src == 'disk-rb':
            f = open(path, 'rb')
        elif src == 'disk-rb-raw':
            f = open(path, 'rb', buffering=0)
        else:
            f = open(path, 'r', encoding='utf-8', newline='')
        try:
            return mk(f)
        finally:
            f.close()
    raise ValueError('unknown document source %r' % (src,))


def run_cmt(ctx, case):
    """The same copyright document WITH '#' comment lines as str (control) and as BYTES.  Both parses must show the
    paragraphs written (comment lines removed), the same files tuples, the same matches() answers (glob model) and the same
    find_files_paragraph results (last-match rule).  M.cmt.str.* judge the str parse, M.cmt.* the bytes parse."""
    paras, lines, src, names = case['paras'], case['lines'], case['src'], list(case['names'])
    strict = case.get('strict', True)
    feol = case.get('final_eol', True)
    ssrc = CMT_PAIR[src]
    whole = src == 'bytes-whole'
    ns = '' if strict else NS_SUFFIX
    want_files = _written_files_view(paras)
    want_tags = [t for t, _ in want_files]
    want_lists = [G.GlobList(p['F']) for p in paras if 'F' in p]
    plain = [l for l in lines if not is_comment_line(l)]
    rr = random.Random('cmt/%d/%d' % (len(lines), len(names)))
    small = dict(case)
    small['names'] = names[:1]
    ctx.count('cmt:documents')
    ctx.count('cmt:source:%s' % src)
    ctx.count('cmt:%s' % ('strict' if strict else 'strict=False'))
    if not feol:
        ctx.count('cmt:no-end-of-line-after-last-line')
    labels = cmt_classify(lines)
    for lab in labels:
        ctx.count('cmt:position:%s' % lab)
    ctx.count('cmt:comment-lines', sum(1 for l in lines if is_comment_line(l)))
    if any('#' in x for p in paras if 'F' in p for x in p['F']):
        ctx.count('cmt:pattern-containing-#-that-is-not-a-comment')

    def parse(ls, s):
        try:
            return cmt_parse(ctx, ls, s, strict, feol)
        except Exception as e:
            return e

    def structure(doc):
        """('ok', files view, all ids) / ('raised', text) / ('paragraphs', files view): are the Files paragraphs written the
        Files paragraphs shown (by their unique Copyright ids, in order)?"""
        if isinstance(doc, Exception):
            return ('raised', '%s: %s' % (type(doc).__name__, doc))
        try:
            fv = _files_view(doc)
            ids = _para_ids(doc.all_paragraphs())
            hdr = doc.header.format
        except Exception as e:
            return ('raised', 'listing the paragraphs raised %s: %s' % (type(e).__name__, e))
        if [t for t, _ in fv] != want_tags or hdr != FORMAT:
            return ('paragraphs', fv)
        return ('ok', fv, ids)

    def as_written(doc):
        st = structure(doc)
        return st[0] == 'ok' and st[1] == want_files

    def key_for(st, where):
        if st[0] == 'raised':
            return 'document-rejected-%s' % where
        if len(st[1]) < len(want_files):
            return 'files-paragraph-lost-%s' % where
        if len(st[1]) > len(want_files):
            return 'extra-files-paragraph-%s' % where
        return 'files-paragraphs-differ-%s' % where

    def queries(doc, st, label, mon, cnt):
        """files tuples against what was written (a difference is turned into names, as for the long lists), every
        paragraph's matches() against the glob model, find_files_paragraph against the last-match rule.  Returns (results per
        name, number of violations recorded)."""
        fps = list(doc.all_files_paragraphs())
        if st[2] != _written_ids(paras):
            # same Files paragraphs, stand-alone License paragraphs differ: no resolution is affected - a note
            ctx.count('cmt:note:non-files-paragraphs-differ-from-written/%s-source' % label)
        differs, extra, what = False, [], None
        for k, (got, want) in enumerate(zip(st[1], want_files)):
            ctx.mon('M.cmt.%sfiles' % ('' if label == 'bytes' else 'str.'))
            if got == want:
                continue
            differs = True
            if what is None:
                what = 'Files paragraph #%d (%s source): files is %r, written was %r' % (k, label, got[1], want[1])
            a, b = set(want[1]), set(got[1])
            for pat in sorted(b - a)[:6] + sorted(a - b)[:6]:
                nm = _literal_name(rr, pat)
                if nm is not None and nm not in extra:
                    extra.append(nm)
        nm = names + [x for x in extra if x not in names]
        mark = _viol_mark(ctx)
        before = ctx.counters['op:matches']
        res = doc_queries(ctx, case, doc, fps, want_lists, nm, {}, '-cmt-' + label, mon=mon, cnt=cnt)
        ctx.count('cmt:matches-observed/%s-source' % label, ctx.counters['op:matches'] - before)
        suffix = '/document-with-comment-lines/%s-source' % label
        if differs:
            suffix += '/files-differs-from-what-was-written'
        n = _viol_retag(ctx, mark, suffix + ns)
        if n and differs:
            ctx.violations[-1]['msg'] = (ctx.violations[-1]['msg'] + ' || ' + what)[:2000]
        if differs and not n:
            ctx.count('cmt:note:files-differs-from-what-was-written-without-observed-effect/%s-source' % label)
            ctx.extra.setdefault('cmt_notes', [])
            if len(ctx.extra['cmt_notes']) < 3:
                ctx.extra['cmt_notes'].append(what[:600])
        return res[:len(names)], n

    # --- the control: the same document as str, judged against what was written
    ctx.mon('M.cmt.str.order')
    sdoc = parse(lines, ssrc)
    st = structure(sdoc)
    if st[0] != 'ok':
        if as_written(parse(plain, ssrc)):
            ctx.violation(key_for(st, 'at-comment-lines') + '/str-source' + ns,
                          'Copyright(%s) over the document with comment lines (source %s) %s; written were %r, and the same document '
                          'WITHOUT its comment lines (same source kind) shows exactly those.  Document: %r'
                          % ('' if strict else '..., strict=False', ssrc,
                             'raised ' + st[1] if st[0] == 'raised' else 'shows Files paragraphs %r' % (st[1],), want_files, lines), small)
        elif whole:
            ctx.count('cmt:note:whole-string-source-not-judged')
        else:
            ctx.inconclusive.append('comment document did not parse to what was written, with AND without its comment lines '
                                    '(source %s): wrote %r, got %r' % (ssrc, want_files, st[1]))
        return
    ctx.evaluations += max(0, len(names) - 1)
    sres, n = queries(sdoc, st, 'str', 'M.cmt.str.find', 'cmt-str-find')
    if n:
        return
    # --- the same document as BYTES
    ctx.mon('M.cmt.order')
    bdoc = parse(lines, src)
    bst = structure(bdoc)
    if bst[0] != 'ok':
        at_comments = as_written(parse(plain, src))
        if whole and not at_comments:
            ctx.count('cmt:note:whole-string-source-not-judged')      # a whole bytes string is not a documented source
            return
        ctx.violation(key_for(bst, 'at-comment-lines' if at_comments else 'in-bytes-document') + '/bytes-source' + ns,
                      'Copyright(%s) over the document with comment lines handed over as BYTES (source %s) %s; the same document as '
                      'str (source %s) shows the Files paragraphs written, %r; the bytes document WITHOUT its comment lines %s.  '
                      'Document: %r'
                      % ('' if strict else '..., strict=False', src,
                         'raised ' + bst[1] if bst[0] == 'raised' else 'shows Files paragraphs %r' % (bst[1],), ssrc, want_files,
                         'shows them too' if at_comments else 'does not show them either', lines), small)
        return
    ctx.count('cmt:%d-files-paragraphs' % min(len(want_lists), 7))
    bres, n = queries(bdoc, bst, 'bytes', 'M.cmt.find', 'cmt-find')
    if n:
        return
    # --- str and bytes side by side (both were judged against the model; this is the differential statement itself)
    if bst[1] != st[1]:
        ctx.count('cmt:note:files-tuples-differ-between-str-and-bytes-without-observed-effect')
    for name, a, b in zip(names, sres, bres):
        ctx.mon('M.cmt.same')
        if a != b and not any(not gl.legal for gl in want_lists):
            s1 = dict(small)
            s1['names'] = [name]
            ctx.violation('bytes-document-resolves-differently-from-str-document' + ns,
                          'find_files_paragraph(%r): document parsed from str (%s) -> %s, the same document parsed from bytes (%s) '
                          '-> %s' % (name, ssrc, _show(a), src, _show(b)), s1)
    if any(not gl.legal for gl in want_lists):
        return
    for name in names:
        hits = [j for j, gl in enumerate(want_lists) if gl.matches(name)]
        if len(hits) >= 2:
            ctx.count('cmt-find:last-of-several-matching')
        if hits and len(want_lists[hits[-1]].patterns) >= 2 and paras[[i for i, p in enumerate(paras) if 'F' in p][hits[-1]]].get('sep'):
            ctx.count('cmt-find:resolves-to-paragraph-with-multi-line-files-field')


# ---------------------------------------------------------------------------
# kinds 'enc' (one line of a BYTES document is not valid UTF-8) and 'pgp' (quoted PGP armor lines on continuation lines)

def _tok_files_view(doc, skip=None):
    """(first token of the Copyright field = the unique id, files tuple) per Files paragraph, in the order all_files_paragraphs()
    shows; the id of paragraph number `skip` is not looked at (its Copyright line is the one that is not judged)."""
    out = []
    for k, p in enumerate(doc.all_files_paragraphs()):
        cpr = p.copyright
        tag = (cpr.split() or ['?'])[0] if cpr else '?'
        out.append(('?' if k == skip else tag, tuple(p.files)))
    return out


def _tok_ids(doc, skip=None):
    """One id per non-header paragraph: first token of Copyright (Files paragraphs) / the License short name."""
    from debian import copyright as cp
    out, k = [], 0
    for p in doc.all_paragraphs():
        if isinstance(p, cp.Header):
            continue
        try:
            if isinstance(p, cp.FilesParagraph):
                cpr = p.copyright
                out.append('?' if k == skip else ((cpr.split() or ['?'])[0] if cpr else '?'))
                k += 1
            elif isinstance(p, cp.LicenseParagraph):
                out.append(p.license.synopsis)
            else:
                out.append('?%s' % type(p).__name__)
        except Exception as e:
            out.append('?%s' % type(e).__name__)
    return out


def _tok_structure(doc, want_tags, skip=None):
    """('ok', files view, all ids) / ('raised', text) / ('paragraphs', files view)"""
    if isinstance(doc, Exception):
        return ('raised', '%s: %s' % (type(doc).__name__, doc))
    try:
        fv = _tok_files_view(doc, skip)
        ids = _tok_ids(doc, skip)
        hdr = doc.header.format
    except Exception as e:
        return ('raised', 'listing the paragraphs raised %s: %s' % (type(e).__name__, e))
    if [t for t, _ in fv] != want_tags or hdr != FORMAT:
        return ('paragraphs', fv)
    return ('ok', fv, ids)


def _lost_key(st, nwant, where):
    if st[0] == 'raised':
        return 'document-rejected-%s' % where
    if len(st[1]) < nwant:
        return 'files-paragraph-lost-%s' % where
    if len(st[1]) > nwant:
        return 'extra-files-paragraph-%s' % where
    return 'files-paragraphs-differ-%s' % where


def _judge_queries(ctx, case, doc, st, want_files, want_lists, names, rr, pre, label, mon_files, mon_find, cnt, suffix):
    """files tuples against what was written (a difference is not a verdict by itself: the patterns that differ are turned
    into names), every paragraph's matches() against the glob model, find_files_paragraph against the last-match rule.
    Returns (one result per name of `names`, number of violations recorded)."""
    fps = list(doc.all_files_paragraphs())
    differs, extra, what = False, [], None
    for k, (got, want) in enumerate(zip(st[1], want_files)):
        ctx.mon(mon_files)
        if got[1] == want[1]:
            continue
        differs = True
        if what is None:
            what = 'Files paragraph #%d (%s): files is %r, written was %r' % (k, label, got[1], want[1])
        a, b = set(want[1]), set(got[1])
        for pat in sorted(b - a)[:6] + sorted(a - b)[:6]:
            nm = _literal_name(rr, pat)
            if nm is not None and nm not in extra:
                extra.append(nm)
    nm = list(names) + [x for x in extra if x not in names]
    mark = _viol_mark(ctx)
    before = ctx.counters['op:matches']
    res = doc_queries(ctx, case, doc, fps, want_lists, nm, {}, '-%s-%s' % (pre, label), mon=mon_find, cnt=cnt)
    ctx.count('%s:matches-observed/%s' % (pre, label), ctx.counters['op:matches'] - before)
    if differs:
        suffix += '/files-differs-from-what-was-written'
    n = _viol_retag(ctx, mark, suffix)
    if n and differs:
        ctx.violations[-1]['msg'] = (ctx.violations[-1]['msg'] + ' || ' + what)[:2000]
    if differs and not n:
        ctx.count('%s:note:files-differs-from-what-was-written-without-observed-effect/%s' % (pre, label))
        ctx.extra.setdefault('%s_notes' % pre, [])
        if len(ctx.extra['%s_notes' % pre]) < 3:
            ctx.extra['%s_notes' % pre].append(what[:600])
    return res[:len(names)], n


def _asciify(s):
    return ''.join(ch if ord(ch) < 128 else 'x' for ch in s)


def run_enc(ctx, case):
    """A copyright document handed over as BYTES in which exactly ONE line (never a line of a Files field) is not valid UTF-8.
    The CONTROL is the same document with that line made valid (every line UTF-8): judged against what was written.  The
    document with the bad line must then show the same Files paragraphs, the same files tuples, the same matches() answers
    (glob model) and the same find_files_paragraph results; what the bad line itself reads as is not looked at."""
    paras, lines, src, names = case['paras'], case['lines'], case['src'], list(case['names'])
    bad, benc = case['bad'], case['benc']
    strict = case.get('strict', True)
    feol = case.get('final_eol', True)
    ns = '' if strict else NS_SUFFIX
    good_raw = [l.encode('utf-8') for l in lines]
    bad_raw = list(good_raw)
    bad_raw[bad] = lines[bad].encode(benc)
    labels, ford, field, first, bpara = enc_positions(lines, bad)
    if not _not_utf8(bad_raw[bad]) or field in ('Files', 'Format', None):
        ctx.inconclusive.append('generator: line %d (%r as %s) of an enc case is valid UTF-8 / a Files line' % (bad, lines[bad], benc))
        return
    skip = ford if (field == 'Copyright' and first) else None       # that paragraph's id stands on the line that is not judged
    want_files = [(('?' if k == skip else t), f) for k, (t, f) in enumerate(_written_files_view(paras))]
    want_tags = [t for t, _ in want_files]
    want_lists = [G.GlobList(p['F']) for p in paras if 'F' in p]
    rr = random.Random('enc/%d/%d' % (len(lines), len(names)))
    small = dict(case)
    small['names'] = names[:1]
    ctx.count('enc:documents')
    ctx.count('enc:source:%s' % src)
    ctx.count('enc:%s' % ('strict' if strict else 'strict=False'))
    ctx.count('enc:bad-line-encoding:%s' % benc)
    ctx.count('enc:bad-line-encoding-family:%s' % ENC_FAMILY.get(benc, 'other'))
    ctx.count('enc:bad-line-field:%s' % field)
    ctx.count('enc:bad-line:%s' % ('first-line-of-field' if first else 'continuation-line'))
    for lab in labels:
        ctx.count('enc:position:%s' % lab)
    if not feol:
        ctx.count('enc:no-end-of-line-after-last-line')
        if bad == len(lines) - 1:
            ctx.count('enc:bad-line-is-unterminated-last-line')
    ctx.count('enc:non-ascii-patterns', sum(1 for p in paras if 'F' in p for x in p['F'] if _non_ascii(x)))
    ctx.count('enc:non-ascii-names', sum(1 for x in names if _non_ascii(x)))
    if any(_non_ascii(l) for k, l in enumerate(lines) if k != bad and not l.startswith(('Files:', ' ', '\t'))):
        ctx.count('enc:other-field-lines-with-valid-non-ascii-text')

    def parse(raw, s=src, ls=lines):
        try:
            return cmt_parse(ctx, ls, s, strict, feol, raw=raw, note='enc')
        except Exception as e:
            return e

    # --- the control: every line valid UTF-8
    ctx.mon('M.enc.ctl.order')
    gdoc = parse(good_raw)
    st = _tok_structure(gdoc, want_tags, skip)
    if st[0] != 'ok':
        sst = _tok_structure(parse(None, CMT_PAIR[src]), want_tags, skip)
        if sst[0] == 'ok' and [f for _, f in sst[1]] == [f for _, f in want_files]:
            ctx.violation(_lost_key(st, len(want_files), 'in-utf-8-bytes-document') + '/bytes-source' + ns,
                          'Copyright(%s) over a valid UTF-8 document with non-ASCII characters handed over as BYTES (source %s) %s; '
                          'written were %r, and the same document as str (source %s) shows exactly those.  Document: %r'
                          % ('' if strict else '..., strict=False', src,
                             'raised ' + st[1] if st[0] == 'raised' else 'shows Files paragraphs %r' % (st[1],), want_files,
                             CMT_PAIR[src], lines), small)
        else:
            ctx.inconclusive.append('enc control document did not parse to what was written, as bytes and as str (source %s): wrote '
                                    '%r, got %r' % (src, want_files, st[1]))
        return
    ctx.evaluations += max(0, len(names) - 1)
    gres, n = _judge_queries(ctx, case, gdoc, st, want_files, want_lists, names, rr, 'enc', 'control-document', 'M.enc.ctl.files',
                             'M.enc.ctl.find', 'enc-ctl-find', '/utf-8-bytes-document-with-non-ascii-patterns' + ns)
    if n:
        return
    # --- the same document with the ONE line that is not valid UTF-8
    ctx.mon('M.enc.order')
    w0 = ctx.counters['enc:note:warning:UnicodeWarning']
    bdoc = parse(bad_raw)
    if ctx.counters['enc:note:warning:UnicodeWarning'] > w0:
        ctx.count('enc:documents-with-decoder-warning')
    bst = _tok_structure(bdoc, want_tags, skip)
    where = 'in-document-with-one-undecodable-line'
    desc = ('line %d %r (field %s, encoded as %s: %r) is not valid UTF-8; every other line is' % (bad, lines[bad], field, benc, bad_raw[bad]))
    if bst[0] != 'ok':
        # is it the bad line by itself (its own reading is not judged) or does it reach other lines?  The same document with
        # every OTHER line made ASCII (non-ASCII characters replaced by 'x'), the bad line kept: if that one shows the
        # (asciified) paragraphs written, the bad line alone is harmless and the loss comes from how OTHER lines were decoded
        a_lines = [_asciify(l) for l in lines]
        a_raw = [l.encode('ascii') for l in a_lines]
        a_raw[bad] = bad_raw[bad]
        a_want = [(t, tuple(_asciify(x) for x in f)) for t, f in want_files]
        ast = _tok_structure(parse(a_raw, src, a_lines), want_tags, skip)
        if ast[0] == 'ok' and [f for _, f in ast[1]] == [f for _, f in a_want]:
            ctx.violation(_lost_key(bst, len(want_files), where) + '/bytes-source' + ns,
                          'Copyright(%s) over BYTES (source %s): %s.  The document %s; with that line made valid it shows the Files '
                          'paragraphs written, %r, and with every OTHER line made ASCII (the bad line kept) it shows the paragraphs '
                          'written too.  Document: %r'
                          % ('' if strict else '..., strict=False', src, desc,
                             'raised ' + bst[1] if bst[0] == 'raised' else 'shows Files paragraphs %r' % (bst[1],), want_files, lines), small)
        else:
            ctx.count('enc:note:undecodable-line-changes-the-paragraphs-by-itself-not-judged')
            ctx.extra.setdefault('enc_notes', [])
            if len(ctx.extra['enc_notes']) < 3:
                ctx.extra['enc_notes'].append(('%s; document %s also when every other line is ASCII'
                                               % (desc, 'rejected (%s)' % bst[1] if bst[0] == 'raised' else 'shows %r' % (bst[1],)))[:600])
        return
    ctx.count('enc:%d-files-paragraphs' % min(len(want_lists), 7))
    bres, n = _judge_queries(ctx, case, bdoc, bst, want_files, want_lists, names, rr, 'enc', 'document-with-undecodable-line',
                             'M.enc.files', 'M.enc.find', 'enc-find', '/' + where[3:] + ns)
    if n:
        ctx.violations[-1]['msg'] = (ctx.violations[-1]['msg'] + ' || ' + desc)[:2000]
        return
    for name, a, b in zip(names, gres, bres):
        ctx.mon('M.enc.same')
        if a != b:
            s1 = dict(small)
            s1['names'] = [name]
            ctx.violation('document-with-one-undecodable-line-resolves-differently-from-the-same-document-with-that-line-valid' + ns,
                          'find_files_paragraph(%r): all lines valid UTF-8 -> %s, %s -> %s' % (name, _show(a), desc, _show(b)), s1)
    fidx = [i for i, p in enumerate(paras) if 'F' in p]
    for name in names:
        hits = [j for j, gl in enumerate(want_lists) if gl.matches(name)]
        if not hits:
            continue
        if len(hits) >= 2:
            ctx.count('enc-find:last-of-several-matching')
        if not _non_ascii(name):
            continue
        ctx.count('enc-find:non-ascii-name-resolves-to-a-paragraph')
        if any(_non_ascii(x) for x in want_lists[hits[-1]].patterns):
            ctx.count('enc-find:non-ascii-name-resolves-to-paragraph-with-non-ascii-patterns')
            at = fidx[hits[-1]] + 1               # ordinal of that paragraph in the document (0 = header)
            ctx.count('enc-find:resolves-to-%s' % ('the-paragraph-that-holds-the-undecodable-line' if at == bpara else
                                                   ('paragraph-behind-the-undecodable-line' if at > bpara else
                                                    'paragraph-before-the-undecodable-line')))


_PGP_MARK_RE = None


def pgp_markers(lines):
    """[(line number, 'BEGIN' | 'END', what, how it is led in: 'blank' | 'blanks' | 'tab' | 'field-line')] for every line that
    quotes an armor header line NOT in column 0."""
    import re
    global _PGP_MARK_RE
    if _PGP_MARK_RE is None:
        _PGP_MARK_RE = re.compile(r'^(?P<lead>[ \t]+|[A-Za-z-]+:[ \t]*)-----(?P<action>BEGIN|END) PGP (?P<what>[^-]+)-----[ \t]*$')
    out = []
    for k, l in enumerate(lines):
        m = _PGP_MARK_RE.match(l)
        if m:
            lead = m.group('lead')
            how = 'field-line' if ':' in lead else ('tab' if '\t' in lead else ('blank' if lead == ' ' else 'blanks'))
            out.append((k, m.group('action'), m.group('what'), how))
    return out


def run_pgp(ctx, case):
    """A copyright document whose Comment / License / Copyright / Disclaimer texts quote PGP armor lines on CONTINUATION lines
    (with their leading blanks): not armor - all paragraphs behind them must still be there (all_files_paragraphs against what
    was written, M.pgp.order), and names resolve by the last-match rule (M.pgp.find, M.match)."""
    paras, lines, src, names = case['paras'], case['lines'], case['src'], list(case['names'])
    strict = case.get('strict', True)
    feol = case.get('final_eol', True)
    ns = '' if strict else NS_SUFFIX
    is_bytes = src.startswith(('bytes', 'disk-rb'))
    stype = 'bytes-source' if is_bytes else 'str-source'
    want_files = _written_files_view(paras)
    want_tags = [t for t, _ in want_files]
    want_lists = [G.GlobList(p['F']) for p in paras if 'F' in p]
    rr = random.Random('pgp/%d/%d' % (len(lines), len(names)))
    small = dict(case)
    small['names'] = names[:1]
    marks = pgp_markers(lines)
    if not marks or any(l.startswith('-----') for l in lines):
        ctx.inconclusive.append('generator: a pgp case without quoted marker / with a marker in column 0: %r' % (lines,))
        return
    ctx.count('pgp:documents')
    ctx.count('pgp:source:%s' % src)
    ctx.count('pgp:%s' % stype)
    ctx.count('pgp:%s' % ('strict' if strict else 'strict=False'))
    ctx.count('pgp:%s/%s' % (stype, 'strict' if strict else 'strict=False'))
    if not feol:
        ctx.count('pgp:no-end-of-line-after-last-line')
    # --- where the quoted markers stand (evidence counters)
    para_of, pi = [], 0
    for l in lines:
        if l == '':
            pi += 1
        para_of.append(pi)
    kinds = ['header'] + ['Files' if 'F' in p else 'License' for p in paras]
    first_mark_para = para_of[marks[0][0]]
    by_para = {}
    for k, action, what, how in marks:
        ctx.count('pgp:marker:%s' % action)
        ctx.count('pgp:marker-led-in-by:%s' % how)
        ctx.count('pgp:marker:%s %s' % (action, what.strip()))
        by_para.setdefault(para_of[k], []).append(action)
        j = k
        while j > 0 and lines[j][:1] in (' ', '\t'):
            j -= 1
        ctx.count('pgp:host-field:%s' % lines[j].split(':', 1)[0])
        ctx.count('pgp:host-paragraph:%s' % kinds[para_of[k]])
        if k + 1 >= len(lines) or lines[k + 1] == '':
            ctx.count('pgp:marker-is-last-line-of-its-paragraph')
        if kinds[para_of[k]] == 'Files':
            f0 = [x for x in range(len(lines)) if para_of[x] == para_of[k] and lines[x].startswith('Files:')]
            if f0 and k < f0[0]:
                ctx.count('pgp:marker-before-the-files-field-of-its-paragraph')
    for acts in by_para.values():
        if 'BEGIN' in acts and 'END' not in acts:
            ctx.count('pgp:quote:begin-without-end')
        elif 'BEGIN' not in acts:
            ctx.count('pgp:quote:lone-end')
        else:
            ctx.count('pgp:quote:begin-and-end')
        if acts.count('BEGIN') >= 2:
            ctx.count('pgp:quote:signed-message-and-signature')
    behind = [j for j, i in enumerate(i for i, p in enumerate(paras) if 'F' in p) if i + 1 > first_mark_para]
    ctx.count('pgp:files-paragraphs-behind-the-first-quote', len(behind))
    if behind:
        ctx.count('pgp:documents-with-files-paragraphs-behind-the-quote')

    def parse(ls):
        try:
            return cmt_parse(ctx, ls, src, strict, feol)
        except Exception as e:
            return e

    ctx.mon('M.pgp.order')
    doc = parse(lines)
    st = _tok_structure(doc, want_tags)
    if st[0] != 'ok':
        skip = set(k for k, _, _, _ in marks)
        defused = [l.replace('-----', '=====') if k in skip else l for k, l in enumerate(lines)]
        cst = _tok_structure(parse(defused), want_tags)
        if cst[0] == 'ok' and cst[1] == want_files:
            ctx.violation(_lost_key(st, len(want_files), 'behind-quoted-pgp-armor-line') + '/' + stype + ns,
                          'Copyright(%s) over source %s %s; written were %r.  The document quotes PGP armor lines on continuation / '
                          'field lines (NOT in column 0: %r); the same document with those lines defused (----- -> =====) shows '
                          'exactly the paragraphs written.  Document: %r'
                          % ('' if strict else '..., strict=False', src,
                             'raised ' + st[1] if st[0] == 'raised' else 'shows Files paragraphs %r' % (st[1],), want_files,
                             [lines[k] for k in sorted(skip)], lines), small)
        else:
            ctx.inconclusive.append('pgp document did not parse to what was written, with AND without its quoted marker lines '
                                    '(source %s): wrote %r, got %r' % (src, want_files, st[1]))
        return
    if st[2] != _written_ids(paras):
        ctx.count('pgp:note:non-files-paragraphs-differ-from-written')
    ctx.count('pgp:%d-files-paragraphs' % min(len(want_lists), 7))
    ctx.evaluations += max(0, len(names) - 1)
    res, n = _judge_queries(ctx, case, doc, st, want_files, want_lists, names, rr, 'pgp', stype, 'M.pgp.files', 'M.pgp.find',
                            'pgp-find', '/document-quoting-pgp-armor-lines/' + stype + ns)
    if n or any(not gl.legal for gl in want_lists):
        return
    for name in names:
        hits = [j for j, gl in enumerate(want_lists) if gl.matches(name)]
        if hits and hits[-1] in behind:
            ctx.count('pgp-find:resolves-to-paragraph-behind-the-quote')
            if len(hits) >= 2:
                ctx.count('pgp-find:last-of-several-matching-stands-behind-the-quote')
        elif hits and behind:
            ctx.count('pgp-find:resolves-to-paragraph-before-the-quote-although-files-paragraphs-follow')


def _ubl_cp(lead):
    return '+'.join(('U+%04X' % ord(ch)) if ch in UBLANKS else ('blank' if ch == ' ' else 'tab') for ch in lead)


def _ubl_shape(lead):
    kinds = ['unicode' if ch in UBLANKS else ('blank' if ch == ' ' else 'tab') for ch in lead]
    if len(kinds) == 1:
        return 'single-unicode-blank'
    return '-then-'.join(kinds[:2]) + ('-..' if len(kinds) > 2 else '')


def run_ubl(ctx, case):
    """A parsed copyright document whose multi-line Files field has CONTINUATION LINES LED IN BY A UNICODE BLANK other than
    space / tab (U+00A0, U+1680, U+2000..U+200A, U+202F, U+205F, U+3000; also blank-then-NBSP, NBSP-then-blank, ...).  On the
    unchanged tree such a line is a continuation line and its patterns belong to the field, WITHOUT the leading blank(s).  The
    CONTROL (the same document, those lines led in by one plain space) must parse to what was written, otherwise nothing is
    judged.  Then: all_files_paragraphs() / files tuples against what was written (M.ubl.order, M.ubl.files), matches()
    against the glob model (M.match), find_files_paragraph against the last-match rule (M.ubl.find); the Files text as
    written, given as a Deb822 mapping to FilesParagraph(), must answer the same (M.ubl.map)."""
    from debian import copyright as cp
    from debian import deb822
    paras, src, names = case['paras'], case['src'], list(case['names'])
    strict = case.get('strict', True)
    feol = case.get('final_eol', True)
    ns = '' if strict else NS_SUFFIX
    is_bytes = src.startswith(('bytes', 'disk-rb'))
    stype = 'bytes-source' if is_bytes else 'str-source'
    lines, led = ubl_lines(paras)
    plain, _ = ubl_lines(paras, plain=True)
    want_files = _written_files_view(paras)
    want_tags = [t for t, _ in want_files]
    want_lists = [G.GlobList(p['F']) for p in paras if 'F' in p]
    rr = random.Random('ubl/%d/%d' % (len(lines), len(names)))
    small = dict(case)
    small['names'] = names[:1]
    if not led:
        ctx.inconclusive.append('generator: a ubl case without a continuation line led in by a Unicode blank: %r' % (lines,))
        return

    def parse(ls):
        try:
            return cmt_parse(ctx, ls, src, strict, feol, note='ubl')
        except Exception as e:
            return e

    # --- the control: the same document, those lines led in by a plain space
    ctx.mon('M.ubl.ctl.order')
    cst = _tok_structure(parse(plain), want_tags)
    if cst[0] != 'ok' or cst[1] != want_files:
        ctx.count('ubl:note:control-document-does-not-parse-to-what-was-written')
        ctx.inconclusive.append('ubl: the CONTROL document (plain-space continuation lines, source %s) does not parse to what was '
                                'written: wrote %r, got %r' % (src, want_files, cst[1]))
        return
    ctx.count('ubl:documents')
    ctx.count('ubl:source:%s' % src)
    ctx.count('ubl:%s' % stype)
    ctx.count('ubl:%s' % ('strict' if strict else 'strict=False'))
    ctx.count('ubl:%s/%s' % (stype, 'strict' if strict else 'strict=False'))
    if not feol:
        ctx.count('ubl:no-end-of-line-after-last-line')
    ctx.count('ubl:led-lines', len(led))
    host_idx = sorted(set(fj for _, _, fj in led))
    ctx.count('ubl:files-fields-with-led-lines', len(host_idx))
    on_led = {}                                        # Files paragraph number -> patterns that stand on led lines
    for ln, lead, fj in led:
        first = lead[0]
        ctx.count('ubl:lead-shape:%s' % _ubl_shape(lead))
        for ch in sorted(set(lead)):
            if ch in UBLANKS:
                ctx.count('ubl:unicode-blank:U+%04X' % ord(ch))
        ctx.count('ubl:first-character:%s' % ('U+%04X' % ord(first) if first in UBLANKS else ('blank' if first == ' ' else 'tab')))
        ctx.count('ubl:line-starts-with-%s' % ('unicode-blank' if first in UBLANKS else 'plain-blank-or-tab'))
        pats = lines[ln][len(lead):].split(' ')
        on_led.setdefault(fj, []).extend(pats)
        ctx.count('ubl:patterns-on-led-lines', len(pats))
        nxt = lines[ln + 1] if ln + 1 < len(lines) else ''
        prv = lines[ln - 1]
        if prv.startswith('Files:'):
            ctx.count('ubl:led-line-is-first-continuation-line' + ('/field-line-empty' if prv == 'Files:' else ''))
        if nxt == '' or nxt[:1] not in (' ', '\t') and not ubl_is_lead(nxt[:1]):
            ctx.count('ubl:led-line-is-last-line-of-the-field' + ('/and-of-the-paragraph' if nxt == '' else ''))
        elif ubl_is_lead(nxt[:1]):
            ctx.count('ubl:led-line-followed-by-led-line')
        else:
            ctx.count('ubl:led-line-followed-by-plain-continuation-line')
    for fj in host_idx:
        cont = sum(1 for lead, _ in [p for p in paras if 'F' in p][fj]['rows'][1:])
        nled = sum(1 for _, _, j in led if j == fj)
        ctx.count('ubl:field:%s' % ('all-continuation-lines-led' if nled == cont else 'led-and-plain-continuation-lines-mixed'))
    if host_idx[-1] < len(want_lists) - 1:
        ctx.count('ubl:documents-with-files-paragraphs-behind-the-led-field')

    # --- the document itself
    ctx.mon('M.ubl.order')
    doc = parse(lines)
    st = _tok_structure(doc, want_tags)
    shown = [(ln, _ubl_cp(lead)) for ln, lead, _ in led]
    if st[0] != 'ok':
        ctx.violation(_lost_key(st, len(want_files), 'at-continuation-line-led-by-unicode-blank') + '/' + stype + ns,
                      'Copyright(%s) over source %s %s; written were %r.  Continuation lines of a Files field are led in by a '
                      'Unicode blank other than space / tab (line number, lead: %r); the same document with those lines led in by a '
                      'plain space shows exactly the paragraphs written.  Document: %r'
                      % ('' if strict else '..., strict=False', src,
                         'raised ' + st[1] if st[0] == 'raised' else 'shows Files paragraphs %r' % (st[1],), want_files, shown, lines),
                      small)
        return
    if st[2] != _written_ids(paras):
        ctx.count('ubl:note:non-files-paragraphs-differ-from-written')
    ctx.evaluations += max(0, len(names) - 1)
    res, n = _judge_queries(ctx, case, doc, st, want_files, want_lists, names, rr, 'ubl', stype, 'M.ubl.files', 'M.ubl.find',
                            'ubl-find', '/files-field-continuation-line-led-by-unicode-blank/' + stype + ns)
    # --- the Files text as written, given as a Deb822 mapping
    nmap = 0
    fparas = [p for p in paras if 'F' in p]
    for fj in host_idx:
        p = fparas[fj]
        text = '\n'.join((' '.join(pats) if lead is None else lead + ' '.join(pats)) for lead, pats in p['rows'])
        try:
            fp = cp.FilesParagraph(deb822.Deb822({'Files': text, 'Copyright': 'm%d' % fj, 'License': 'L'}), strict=strict)
            got = tuple(fp.files)
        except Exception as e:
            # what a mapping accepts as a value is not the statement's subject
            ctx.count('ubl:note:mapping-with-the-same-files-text-not-accepted:%s' % type(e).__name__)
            continue
        ctx.mon('M.ubl.map')
        ctx.count('ubl:map:paragraphs')
        gl = want_lists[fj]
        mark = _viol_mark(ctx)
        for name in names:
            sm = dict(small)
            sm['names'] = [name]
            check_matches(ctx, fp, gl, name, sm)
            ctx.count('ubl:map:matches-observed')
        suffix = '/files-text-with-unicode-blank-led-lines-given-as-mapping'
        if got != tuple(p['F']):
            suffix += '/files-differs-from-what-was-written'
            ctx.count('ubl:note:mapping-files-differs-from-what-was-written')
        nmap += _viol_retag(ctx, mark, suffix)
    if n or nmap:
        return
    for name, r_ in zip(names, res):
        hits = [j for j, gl in enumerate(want_lists) if gl.matches(name)]
        if not hits:
            continue
        j = hits[-1]
        if j in on_led:
            gl = want_lists[j]
            others = [x for x in gl.patterns if x not in on_led[j]]
            if not G.GlobList(others).matches(name) if others else True:
                ctx.count('ubl-find:name-covered-only-by-patterns-on-led-lines')
                if len(hits) >= 2:
                    ctx.count('ubl-find:last-match-only-through-led-line-shadows-earlier-paragraph')
            else:
                ctx.count('ubl-find:resolves-to-led-field-through-other-pattern')
        elif any(h in on_led for h in hits):
            ctx.count('ubl-find:led-field-matches-but-later-paragraph-wins')


def _para_ids(paragraphs):
    """Identify paragraphs by the unique id the generator put in them (Files:
    Copyright field; stand-alone License: synopsis).  The header is skipped."""
    from debian import copyright as cp
    out = []
    for p in paragraphs:
        if isinstance(p, cp.Header):
            continue
        try:
            if isinstance(p, cp.FilesParagraph):
                out.append(p.copyright)
            elif isinstance(p, cp.LicenseParagraph):
                out.append(p.license.synopsis)
            else:
                out.append('?%s' % type(p).__name__)
        except Exception as e:
            out.append('?%s' % type(e).__name__)
    return out


class _BuildState(object):
    """Independent model of a Copyright document under construction: `order`
    is the id of every non-header paragraph in document order; `files` maps the
    id of a Files paragraph to [live object, GlobList, earlier GlobLists]."""

    def __init__(self):
        self.order = []
        self.files = {}

    def files_order(self):
        return [x for x in self.order if x in self.files]

    def add_files(self, tag):
        """Documented placement: directly after the last Files paragraph.  Returns
        False when the document has no Files paragraph but other paragraphs (the
        docstring is silent there; the caller adopts what the library did)."""
        last = -1
        for i, x in enumerate(self.order):
            if x in self.files:
                last = i
        if last < 0 and self.order:
            return False
        self.order.insert(last + 1, tag)
        return True


def run_build(ctx, case):
    from debian import copyright as cp
    start, ops, names = case['start'], case['ops'], case['names']
    st = _BuildState()
    parsed = start['mode'] != 'empty'
    ws = False
    ctx.count('build:histories')
    ctx.count('build:start-%s' % start['mode'])
    if not parsed:
        c = cp.Copyright()
    else:
        seps = start.get('seps')
        strict = start.get('strict', True)
        ws = bool(seps) and any(is_ws_line(l) for run in seps for l in run)
        small0 = {'kind': 'build', 'start': start, 'ops': [['q', 7]], 'names': names[:1]}
        if ws:
            ws_count_document(ctx, start['paras'], seps, start['mode'], 'ws-build')
            if not strict:
                ctx.count('ws-build:documents-parsed-with-strict=False')
        try:
            c = parse_doc(ctx, doc_lines(start['paras'], seps), start['mode'], strict)
        except Exception as e:
            if ws:
                ctx.mon('M.ws-build.order')
                if ws_rejected(ctx, e, start['paras'], seps, start['mode'], small0, strict):
                    return
            raise
        if ws and not ws_judge_parsed(ctx, c, start['paras'], seps, start['mode'], small0, 'ws-build', strict):
            return
        live = [p for p in c.all_paragraphs() if not isinstance(p, cp.Header)]
        want = _written_ids(start['paras'])
        ok = _para_ids(live) == want
        if ws and not ok:
            # Files paragraphs as written (judged above); only stand-alone License paragraphs differ: no resolution is
            # affected, but the model of the history needs the document as written - the history is not driven
            ctx.count('ws-build:start-not-driven-non-files-paragraphs-differ')
            return
        if ok:
            for i, (p, obj) in enumerate(zip(start['paras'], live)):
                if 'F' in p:
                    if not isinstance(obj, cp.FilesParagraph) or tuple(obj.files) != tuple(p['F']):
                        ok = False
                        break
                    st.files[want[i]] = [obj, G.GlobList(p['F']), []]
        if not ok:
            # harness sanity (not the property): the document must contain what was written
            ctx.inconclusive.append('build start document did not parse to what was written: wrote %r, got %r'
                                    % (want, _para_ids(live)))
            return
        st.order = list(want)
    flags = {'empty-queried': False, 'row': 0}
    memo = {}
    sole_first, parsed_tail, row_tags = set(), set(), []

    def small_at(i):
        return {'kind': 'build', 'start': start, 'ops': ops[:i + 1] + ([] if ops[i][0] == 'q' else [['q', 7]]), 'names': names}

    def viols():
        return sum(ctx.viol_count.values())

    def check_order(small):
        """all_paragraphs() / all_files_paragraphs() against the model.  False => a violation was recorded."""
        ctx.mon('M.build.order')
        try:
            full = _para_ids(c.all_paragraphs())
            fonly = _para_ids(c.all_files_paragraphs())
        except Exception as e:
            ctx.violation('paragraph-listing-raises', 'all_paragraphs()/all_files_paragraphs() raised %s: %s' % (type(e).__name__, e), small)
            return False
        if sorted(full) != sorted(st.order):
            ctx.violation('paragraph-lost-or-duplicated-in-built-document', 'all_paragraphs() shows %r, the history put %r into the '
                          'document' % (full, st.order), small)
            return False
        if [x for x in full if x in st.files] != fonly:
            ctx.violation('all_files_paragraphs-disagrees-with-all_paragraphs', 'all_files_paragraphs() shows %r, all_paragraphs() %r'
                          % (fonly, full), small)
            return False
        if fonly != st.files_order():
            ctx.violation('files-paragraph-order-differs-from-documented-insertion', 'Files paragraphs are in order %r; '
                          'add_files_paragraph documents "directly after the last FilesParagraph", which gives %r '
                          '(all paragraphs: %r)' % (fonly, st.files_order(), full), small)
            return False
        if full != st.order:
            # same Files order, different position relative to stand-alone License paragraphs: no effect on which
            # paragraph a name resolves to - recorded, not judged under this property
            ctx.count('build:note:position-relative-to-license-paragraphs-differs-from-docstring')
            ctx.extra.setdefault('build_notes', [])
            if len(ctx.extra['build_notes']) < 3:
                ctx.extra['build_notes'].append('documented order %r, live order %r' % (st.order, full))
            st.order = list(full)
        return True

    def reparse(small, live_results, lists, any_illegal):
        ctx.mon('M.build.reparse')
        try:
            text = c.dump()
            c2 = cp.Copyright(text.splitlines(True))
            full2 = _para_ids(c2.all_paragraphs())
            fps2 = list(c2.all_files_paragraphs())
        except Exception as e:
            ctx.violation('dump-of-built-document-does-not-reparse', 'dump() then Copyright(...) raised %s: %s'
                          % (type(e).__name__, e), small)
            return
        forder = st.files_order()
        if [x for x in full2 if x in st.files] != forder or len(fps2) != len(forder):
            if not check_order(small):        # the live document itself is not in the documented order: reported under that key
                return
            ctx.violation('dumped-document-has-different-files-paragraphs', 'dump() then parse shows paragraphs %r; the live document '
                          'has Files paragraphs %r (all paragraphs: %r)' % (full2, forder, st.order), small)
            return
        if full2 != st.order:
            ctx.count('build:note:dump-position-relative-to-license-paragraphs-differs')
        if any(tuple(p2.files) != tuple(gl.patterns) for p2, gl in zip(fps2, lists)):
            ctx.count('build:note:reparsed-pattern-list-differs')     # judged only through the queries below
        for name, live_res in zip(names, live_results):
            try:
                r2 = ('value', _index_of(fps2, c2.find_files_paragraph(name)))
            except cp.MachineReadableFormatError as e:
                r2 = ('format-error', str(e))
            except Exception as e:
                r2 = ('other-error', '%s: %s' % (type(e).__name__, e))
            ctx.count('op:find-build-reparsed')
            if any_illegal:
                continue          # either outcome is acceptable there (see ASSUMPTIONS); nothing to compare
            hits = [k for k, gl in enumerate(lists) if gl.matches(name)]
            want_idx = hits[-1] if hits else None
            if r2[0] != live_res[0] or (r2[0] == 'value' and r2[1] != live_res[1]) or (r2[0] == 'value' and r2[1] != want_idx):
                ctx.violation('reparsed-document-resolves-differently', 'find_files_paragraph(%r): live document -> %r, '
                              'dump()-then-parse of it -> %r, last matching Files paragraph is #%r; pattern lists in document '
                              'order %r' % (name, _show(live_res), _show(r2), want_idx, [gl.patterns for gl in lists]), small)

    def query(i, mask):
        small = small_at(i)
        before = viols()
        if mask & 1:
            if not check_order(small):
                return False
        if mask & 6:
            forder = st.files_order()
            fps = [st.files[t][0] for t in forder]
            lists = [st.files[t][1] for t in forder]
            earlier = dict((k, st.files[t][2][:4]) for k, t in enumerate(forder) if st.files[t][2])
            any_illegal = any(not gl.legal for gl in lists)
            res = doc_queries(ctx, case, c, fps, lists, names, earlier, '-build', small_of=lambda name: small,
                              mon='M.build.find', cnt='build-find', memo=memo)
            ctx.evaluations += len(names)
            if ws:
                ctx.count('ws-build:find-on-history-from-start-with-whitespace-only-separators', len(names))
            if not any_illegal:
                for name in names:
                    hits = [k for k, gl in enumerate(lists) if gl.matches(name)]
                    if not lists:
                        ctx.count('build:find-on-document-without-files-paragraph')
                    if not hits:
                        continue
                    wtag = forder[hits[-1]]
                    if flags['empty-queried']:
                        ctx.count('build:find-hit-after-query-on-document-without-files-paragraph')
                    if wtag in sole_first and len(hits) >= 2:
                        ctx.count('build:find-resolves-to-overlapping-paragraph-added-behind-sole-first-files-and-licenses')
                    if wtag in parsed_tail:
                        ctx.count('build:find-resolves-to-paragraph-added-to-parsed-document-ending-in-license')
                    if flags['row'] >= 2 and wtag in row_tags[-flags['row']:]:
                        ctx.count('build:find-resolves-into-run-of-2+-adds')
                if not lists:
                    flags['empty-queried'] = True
            flags['row'] = 0
            if viols() != before:
                if not mask & 1:
                    check_order(small)        # classification aid: was it the order or the lookup?
                return False
            if mask & 4:
                reparse(small, res, lists, any_illegal)
                if viols() != before:
                    return False
        return True

    for i, op in enumerate(ops):
        kind = op[0]
        if kind == 'q':
            ctx.count('op:build-query-%d' % op[1])
            if not query(i, op[1]):
                return
        elif kind == 'addF':
            pats, tag = op[1], op[2]
            para = make_para(pats, tag)
            forder = st.files_order()
            if len(forder) == 1 and st.order[0] == forder[0] and len(st.order) >= 2:
                sole_first.add(tag)
                ctx.count('build:add-behind-sole-first-files-and-licenses')
            if parsed and st.order and st.order[-1] not in st.files:
                parsed_tail.add(tag)
                ctx.count('build:add-to-parsed-document-ending-in-license')
            c.add_files_paragraph(para)
            ctx.count('op:build-add-files')
            st.files[tag] = [para, G.GlobList(pats), []]
            flags['row'] += 1
            row_tags.append(tag)
            if not st.add_files(tag):
                # no Files paragraph yet but stand-alone License paragraphs: the docstring does not say where the first
                # Files paragraph goes; adopt the library's choice (nothing else may have moved)
                ctx.count('build:first-files-paragraph-added-to-license-only-document')
                full = _para_ids(c.all_paragraphs())
                if [x for x in full if x != tag] != st.order or full.count(tag) != 1:
                    ctx.violation('paragraph-lost-or-duplicated-in-built-document', 'after add_files_paragraph(%r) all_paragraphs() '
                                  'shows %r; before: %r' % (tag, full, st.order), small_at(i))
                    return
                st.order = full
        elif kind == 'addL':
            c.add_license_paragraph(cp.LicenseParagraph.create(cp.License(op[1], 'text')))
            ctx.count('op:build-add-license')
            st.order.append(op[1])
        elif kind == 'set':
            k, newp = op[1], op[2]
            forder = st.files_order()
            if k >= len(forder):
                continue
            ent = st.files[forder[k]]
            ent[0].files = list(newp)
            ent[2].insert(0, ent[1])
            ent[1] = G.GlobList(newp)
            ctx.count('op:build-files-assign')
        else:
            raise ValueError('unknown build op %r' % (op,))


# ---------------------------------------------------------------------------
# documents built INCREMENTALLY with shared license short names (kind 'incr')

def incr_owner(p):
    return INCR_OWNERS[p['own']] if isinstance(p.get('own'), int) else 'holder of %s' % p['id']


def incr_text(p):
    """(short name, text) of the License field of a paragraph entry."""
    if 'F' in p:
        return p['syn'], ('Inline text of %s.' % p['syn'] if p.get('lt') else '')
    return p['L'], 'Text %d of the license.\nSecond line of it.' % p['tx']


def incr_entry(p, unique=None):
    """What a listing must show for the paragraph entry p: ('F', id, files tuple, short name, license text, copyright) /
    ('L', id, short name, license text).  unique: the control document (every short name made unique)."""
    syn, text = incr_text(p)
    if unique is not None:
        syn = '%s-u%d' % (syn, unique)
    if 'F' in p:
        return ('F', p['id'], tuple(p['F']), syn, text, incr_owner(p))
    return ('L', p['id'], syn, text)


def incr_para_lines(p, unique=None):
    syn, text = incr_text(p)
    if unique is not None:
        syn = '%s-u%d' % (syn, unique)
    lic = ['License: %s' % syn] + [' ' + l for l in text.split('\n') if text]
    if 'F' not in p:
        return lic + ['Comment: %s' % p['id']]
    pats, sep = p['F'], p.get('sep', 0)
    if sep == 0:
        f = ['Files: %s' % ' '.join(pats)]
    elif sep == 1:
        f = ['Files: %s' % pats[0]] + [' %s' % x for x in pats[1:]]
    else:
        f = ['Files:'] + [' %s' % x for x in pats]
    rest = ['Copyright: %s' % incr_owner(p)] + lic + ['Comment: %s' % p['id']]
    return f + rest if not p.get('fo') else rest + f


def incr_doc_lines(paras, hl=None, unique=False):
    out = ['Format: %s' % FORMAT, 'Upstream-Name: x'] + (['License: %s' % hl] if hl else [])
    for i, p in enumerate(paras):
        out.append('')
        out.extend(incr_para_lines(p, i if unique else None))
    return out


def incr_make(cp, p):
    """The paragraph object for entry p, built through the public constructors; its unique id goes into Comment."""
    syn, text = incr_text(p)
    if 'F' in p:
        para = cp.FilesParagraph.create(list(p['F']), incr_owner(p), cp.License(syn, text))
    else:
        para = cp.LicenseParagraph.create(cp.License(syn, text))
    para.comment = p['id']
    return para


def incr_view(cp, paragraphs):
    """One entry per non-header paragraph, in the order given (see incr_entry)."""
    out = []
    for p in paragraphs:
        if isinstance(p, cp.Header):
            continue
        try:
            if isinstance(p, cp.FilesParagraph):
                lic = p.license
                out.append(('F', p.comment, tuple(p.files), lic.synopsis if lic else None, lic.text if lic else None, p.copyright))
            elif isinstance(p, cp.LicenseParagraph):
                lic = p.license
                out.append(('L', p.comment, lic.synopsis if lic else None, lic.text if lic else None))
            else:
                out.append(('?', type(p).__name__))
        except Exception as e:
            out.append(('?', '%s: %s' % (type(e).__name__, e)))
    return out


def _incr_core(e):
    """The part of an entry this property is about: kind, id and - for a Files paragraph - its files tuple."""
    return e[:3] if e[0] == 'F' else e[:2]


def _incr_listings(cp, c):
    """(all_paragraphs, all_files_paragraphs, all_license_paragraphs) as entry lists, plus whether the header comes first
    and only there."""
    allp = list(c.all_paragraphs())
    header_ok = bool(allp) and isinstance(allp[0], cp.Header) and not any(isinstance(p, cp.Header) for p in allp[1:])
    return incr_view(cp, allp), incr_view(cp, c.all_files_paragraphs()), incr_view(cp, c.all_license_paragraphs()), header_ok


def _incr_note(ctx, what, detail):
    ctx.count('incr:note:%s' % what)
    notes = ctx.extra.setdefault('incr_notes', [])
    if len(notes) < 3:
        notes.append(('%s: %s' % (what, detail))[:600])


def _incr_shared(paras):
    """Does the document name one license short name in more than one paragraph?"""
    syns = [incr_text(p)[0] for p in paras]
    return len(set(syns)) < len(syns)


def run_incr(ctx, case):
    """Kind 'incr': after the start and after EVERY add the three listings, find_files_paragraph for every name and the
    dump()-then-parse of the document (default and strict=False) are judged against the document as it must be now."""
    from debian import copyright as cp
    start, ops, names = case['start'], case['ops'], case['names']
    hl = case.get('hl')
    parsed = start['mode'] != 'empty'
    ctx.count('incr:histories')
    ctx.count('incr:start-%s' % ('parsed' if parsed else 'empty'))
    info = {}            # id -> [entry dict, live object, GlobList | None]
    state = {'view': [], 'added-before-files': set()}

    def small_at(i):
        d = dict(case)
        d['ops'] = ops[:i + 1]
        return d

    def viols():
        return sum(ctx.viol_count.values())

    # ---- the start document
    if not parsed:
        c = cp.Copyright()
        if hl:
            c.header.license = cp.License(hl)
    else:
        paras = start['paras']
        strict = start.get('strict', True)
        shared = _incr_shared(paras) or (hl is not None and hl in [incr_text(p)[0] for p in paras])
        want = [incr_entry(p) for p in paras]
        small0 = small_at(-1)
        ctx.mon('M.incr.start')
        if shared:
            ctx.count('incr:start-parsed-with-shared-short-name')
        if not strict:
            ctx.count('incr:start-parsed-with-strict=False')

        def control_ok():
            """The same document with every short name made unique, through the same source and `strict`."""
            try:
                c0 = parse_doc(ctx, incr_doc_lines(paras, None, unique=True), start['mode'], strict)
                return incr_view(cp, c0.all_paragraphs()) == [incr_entry(p, i) for i, p in enumerate(paras)]
            except Exception:
                return False

        try:
            c = parse_doc(ctx, incr_doc_lines(paras, hl), start['mode'], strict)
            view = incr_view(cp, c.all_paragraphs())
        except Exception as e:
            if shared and control_ok():
                ctx.violation('document-with-shared-license-short-name-rejected', 'Copyright(%s%s) raised %s: %s; the same document '
                              'with every license short name made unique parses to what was written.  Document: %r'
                              % (start['mode'], '' if strict else ', strict=False', type(e).__name__, e, incr_doc_lines(paras, hl)),
                              small0)
                return
            raise
        if view != want:
            if [_incr_core(e) for e in view] == [_incr_core(e) for e in want]:
                _incr_note(ctx, 'parsed-start-license-or-copyright-text-differs', 'wrote %r, got %r' % (want, view))
            elif shared and control_ok():
                ctx.violation('paragraphs-of-parsed-document-with-shared-license-short-name-differ-from-what-was-written',
                              'all_paragraphs() shows %r, written: %r; the same document with every license short name made unique '
                              'parses to what was written' % (view, want), small0)
                return
            else:
                # harness sanity (not the property): the document must contain what was written
                ctx.inconclusive.append('incr start document did not parse to what was written: wrote %r, got %r' % (want, view))
                return
        objs = [p for p in c.all_paragraphs() if not isinstance(p, cp.Header)]
        for p, obj in zip(paras, objs):
            info[p['id']] = [p, obj, G.GlobList(p['F']) if 'F' in p else None]
        state['view'] = view

    memo = {}

    def listing(small, what):
        """The three listings agree with each other.  Returns the all_paragraphs() view or None (violation recorded)."""
        try:
            view, fview, lview, header_ok = _incr_listings(cp, c)
        except Exception as e:
            ctx.violation('paragraph-listing-raises', 'after %s: all_paragraphs() / all_files_paragraphs() / all_license_paragraphs() '
                          'raised %s: %s' % (what, type(e).__name__, e), small)
            return None
        if not header_ok or any(e[0] == '?' for e in view):
            ctx.violation('all_paragraphs-not-header-then-files-and-license-paragraphs', 'after %s all_paragraphs() does not show '
                          'the header first and Files / License paragraphs behind it: %r' % (what, view), small)
            return None
        if fview != [e for e in view if e[0] == 'F']:
            ctx.violation('all_files_paragraphs-disagrees-with-all_paragraphs', 'after %s all_files_paragraphs() shows %r, '
                          'all_paragraphs() %r' % (what, fview, view), small)
            return None
        if lview != [e for e in view if e[0] == 'L']:
            ctx.violation('all_license_paragraphs-disagrees-with-all_paragraphs', 'after %s all_license_paragraphs() shows %r, '
                          'all_paragraphs() %r' % (what, lview, view), small)
            return None
        return view

    def check_step(i, p, rel):
        """The listings after the add of entry p against the listing before it."""
        opname = 'add_files_paragraph' if 'F' in p else 'add_license_paragraph'
        what = '%s(%s, License short name %r: %s)' % (opname, p['id'], incr_text(p)[0], rel)
        small = small_at(i)
        ctx.mon('M.incr.step')
        prev = state['view']
        view = listing(small, what)
        if view is None:
            return False
        uid = p['id']
        ids, prev_ids = [e[1] for e in view], [e[1] for e in prev]
        if any(u not in ids for u in prev_ids):
            ctx.violation('add-drops-or-replaces-existing-paragraph/%s' % opname, '%s: paragraph(s) %r are gone; before: %r, after: %r'
                          % (what, [e for e in prev if e[1] not in ids], prev, view), small)
            return False
        if ids.count(uid) != 1 or len(view) != len(prev) + 1:
            ctx.violation('add-does-not-add-exactly-one-paragraph/%s' % opname, '%s: the document had %d paragraphs and now has %d, '
                          'the new one %d time(s); before: %r, after: %r' % (what, len(prev), len(view), ids.count(uid), prev, view),
                          small)
            return False
        pos = ids.index(uid)
        rest = view[:pos] + view[pos + 1:]
        if [e[1] for e in rest] != prev_ids:
            ctx.violation('add-reorders-existing-paragraphs/%s' % opname, '%s: before: %r, after: %r' % (what, prev_ids, ids), small)
            return False
        changed = [(a, b) for a, b in zip(prev + [incr_entry(p)], rest + [view[pos]]) if a != b]
        if any(_incr_core(a) != _incr_core(b) for a, b in changed):
            ctx.violation('add-changes-files-of-a-paragraph/%s' % opname, '%s: (before, after) %r'
                          % (what, [(a, b) for a, b in changed if _incr_core(a) != _incr_core(b)]), small)
            return False
        if changed:
            _incr_note(ctx, 'add-changed-license-or-copyright-text-of-a-paragraph', '%s: %r' % (what, changed))
        if 'F' in p:
            fpos = [k for k, e in enumerate(view) if e[0] == 'F' and k != pos]
            if fpos and fpos[-1] > pos:
                ctx.violation('files-paragraph-order-differs-from-documented-insertion', '%s: Files paragraphs are in order %r; '
                              'add_files_paragraph documents "directly after the last FilesParagraph" (all paragraphs: %r)'
                              % (what, [e[1] for e in view if e[0] == 'F'], ids), small)
                return False
            if fpos and fpos[-1] != pos - 1:
                _incr_note(ctx, 'position-relative-to-license-paragraphs-differs-from-docstring', '%s: %r' % (what, ids))
            if not fpos and prev:
                ctx.count('incr:first-files-paragraph-added-to-license-only-document')
        elif pos != len(view) - 1:
            _incr_note(ctx, 'license-paragraph-not-added-behind-all-other-paragraphs', '%s: %r' % (what, ids))
        state['view'] = view
        return True

    def observe(i, label):
        """find_files_paragraph for every name on the document as it is now; dump() then parse, default and strict=False."""
        small = small_at(i)
        view = state['view']
        before = viols()
        fents = [e for e in view if e[0] == 'F']
        fps = [info[e[1]][1] for e in fents]
        lists = [info[e[1]][2] for e in fents]
        lsyn = set(e[2] for e in view if e[0] == 'L')
        any_illegal = any(not gl.legal for gl in lists)
        res = doc_queries(ctx, case, c, fps, lists, names, {}, '-incr', small_of=lambda name: small, mon='M.incr.find',
                          cnt='incr-find', memo=memo)
        ctx.evaluations += len(names)
        want_idx = []
        for name in names:
            hits = [k for k, gl in enumerate(lists) if gl.matches(name)] if not any_illegal else []
            want_idx.append(hits[-1] if hits else None)
            if not lists:
                ctx.count('incr:find-on-document-without-files-paragraph')
            if not hits:
                continue
            if fents[hits[-1]][3] in lsyn:
                ctx.count('incr-find:resolves-to-files-paragraph-whose-short-name-a-license-paragraph-carries')
            if len(hits) >= 2 and len(set(fents[k][3] for k in hits)) == 1:
                ctx.count('incr-find:last-of-several-matching-files-paragraphs-under-one-short-name')
            if fents[hits[-1]][1] in state['added-before-files']:
                ctx.count('incr-find:resolves-to-files-paragraph-added-behind-license-paragraphs-of-a-files-less-document')
        if viols() != before:
            return False
        # ---- dump() then parse: default and strict=False
        try:
            if case.get('dump') == 'file':
                f = io.StringIO()
                c.dump(f)
                text = f.getvalue()
            else:
                text = c.dump()
            lines = text.split('\n')
            if lines and lines[-1] == '':
                lines.pop()
        except Exception as e:
            ctx.violation('dump-of-built-document-raises', '%s: dump() raised %s: %s' % (label, type(e).__name__, e), small)
            return False
        strict_ok = False
        for strict, mode in ((True, case['reparse'][0]), (False, case['reparse'][1])):
            suffix = '' if strict else NS_SUFFIX
            ctx.mon('M.incr.reparse')
            ctx.count('incr:reparse-strict' if strict else 'incr:reparse-strict=False')
            try:
                c2 = parse_doc(ctx, lines, mode, strict)
                view2, fview2, lview2, header_ok2 = _incr_listings(cp, c2)
            except Exception as e:
                if strict or strict_ok:
                    ctx.violation('dump-of-built-document-does-not-reparse' + (suffix if strict_ok else ''), '%s: dump() then '
                                  'Copyright(%s%s) raised %s: %s; dumped text %r' % (label, mode, '' if strict else ', strict=False',
                                                                                   type(e).__name__, e, text), small)
                    return False
                continue
            core, core2 = [_incr_core(e) for e in view], [_incr_core(e) for e in view2]
            bad = None
            if [x for x in core2 if x[0] == 'F'] != [x for x in core if x[0] == 'F']:
                bad = 'dumped-document-has-different-files-paragraphs'
            elif [x for x in core2 if x[0] == 'L'] != [x for x in core if x[0] == 'L'] or len(view2) != len(view) or not header_ok2:
                bad = 'dumped-document-has-different-license-paragraphs'
            elif fview2 != [e for e in view2 if e[0] == 'F'] or lview2 != [e for e in view2 if e[0] == 'L']:
                bad = 'listings-of-reparsed-document-disagree'
            if bad:
                if not strict and not strict_ok:
                    return False          # already reported for the default parse of the same text
                ctx.violation(bad + (suffix if strict_ok else ''), '%s: dump() then Copyright(%s%s) shows %r (Files: %r, License: %r); '
                              'the live document has %r; dumped text %r' % (label, mode, '' if strict else ', strict=False', view2,
                                                                            fview2, lview2, view, text), small)
                return False
            if core2 != core:
                _incr_note(ctx, 'dump-position-relative-to-license-paragraphs-differs', '%r -> %r' % (core, core2))
            elif view2 != view:
                _incr_note(ctx, 'reparsed-license-or-copyright-text-differs', '%r -> %r' % (view, view2))
            fps2 = list(c2.all_files_paragraphs())
            for name, live_res, widx in zip(names, res, want_idx):
                try:
                    r2 = ('value', _index_of(fps2, c2.find_files_paragraph(name)))
                except cp.MachineReadableFormatError as e:
                    r2 = ('format-error', str(e))
                except Exception as e:
                    r2 = ('other-error', '%s: %s' % (type(e).__name__, e))
                ctx.mon('M.incr.reparse.find')
                if any_illegal:
                    continue          # either outcome is acceptable there (see ASSUMPTIONS); nothing to compare
                if r2[0] != live_res[0] or (r2[0] == 'value' and (r2[1] != live_res[1] or r2[1] != widx)):
                    ctx.violation('reparsed-document-resolves-differently' + (suffix if strict_ok else ''),
                                  '%s: find_files_paragraph(%r): live document -> %r, dump()-then-parse of it (%s%s) -> %r, last '
                                  'matching Files paragraph is #%r; pattern lists in document order %r'
                                  % (label, name, _show(live_res), mode, '' if strict else ', strict=False', _show(r2), widx,
                                     [gl.patterns for gl in lists]), small)
                    return False
            if strict:
                strict_ok = True
        return viols() == before

    if parsed:
        if listing(small_at(-1), 'parsing the start document') is None:
            return
        if not observe(-1, 'parsed start document'):
            return
    for i, p in enumerate(ops):
        view = state['view']
        fsyn = [e[3] for e in view if e[0] == 'F']
        lsyn = [e[2] for e in view if e[0] == 'L']
        syn = incr_text(p)[0]
        if syn in fsyn and syn in lsyn:
            rel = 'short-name-of-earlier-files-and-license-paragraphs'
        elif syn in fsyn:
            rel = 'short-name-of-earlier-files-paragraph'
        elif syn in lsyn:
            rel = 'short-name-of-earlier-license-paragraph'
        else:
            rel = 'short-name-not-in-document'
        para = incr_make(cp, p)
        if 'F' in p:
            # harness sanity (not this class): the paragraph holds the list it was given (judged by the other classes)
            if tuple(para.files) != tuple(p['F']):
                ctx.inconclusive.append('incr: FilesParagraph.create(%r).files == %r' % (p['F'], para.files))
                return
            ctx.count('incr:add-files/%s' % rel)
            if not fsyn:
                ctx.count('incr:add-files/first-files-paragraph' + ('-behind-license-paragraphs' if lsyn else ''))
                if lsyn:
                    state['added-before-files'].add(p['id'])
            if syn in lsyn and [e for e in view if e[0] == 'L' and e[2] == syn and e[1] in state['added-before-files']]:
                ctx.count('incr:add-files/short-name-of-license-paragraph-added-before-any-files-paragraph')
            if [e for e in view if e[0] == 'F' and e[3] == syn and e[5] == incr_owner(p)]:
                ctx.count('incr:add-files/same-copyright-and-short-name-as-earlier-files-paragraph')
        else:
            ctx.count('incr:add-license/%s' % rel)
            if not fsyn:
                ctx.count('incr:add-license/before-any-files-paragraph')
                state['added-before-files'].add(p['id'])
                if syn in lsyn:
                    ctx.count('incr:add-license/before-any-files-paragraph/short-name-of-earlier-license-paragraph')
            if syn in lsyn and [e for e in view if e[0] == 'L' and e[2:] == incr_entry(p)[2:]]:
                ctx.count('incr:add-license/identical-license-as-earlier-license-paragraph')
        try:
            if 'F' in p:
                c.add_files_paragraph(para)
            else:
                c.add_license_paragraph(para)
        except Exception as e:
            ctx.violation('add-raises/%s' % ('add_files_paragraph' if 'F' in p else 'add_license_paragraph'),
                          '%s with License short name %r (%s) raised %s: %s; document before: %r'
                          % (p['id'], syn, rel, type(e).__name__, e, view), small_at(i))
            return
        ctx.count('op:incr-add-files' if 'F' in p else 'op:incr-add-license')
        info[p['id']] = [p, para, G.GlobList(p['F']) if 'F' in p else None]
        if not check_step(i, p, rel):
            return
        if not observe(i, 'after add #%d (%s, %s)' % (i + 1, p['id'], rel)):
            return


# ---------------------------------------------------------------------------
# LONG pattern lists in paragraphs built through the API

def _viol_mark(ctx):
    return (len(ctx.violations), dict(ctx.viol_count))


def _viol_retag(ctx, mark, suffix):
    """Append `suffix` to the mechanism key of every violation recorded since `mark`; returns how many there were."""
    nviol, counts = mark
    moved = 0
    for v in ctx.violations[nviol:]:
        if not v['key'].endswith(suffix):
            v['key'] += suffix
    for k, n in list(ctx.viol_count.items()):
        d = n - counts.get(k, 0)
        if d > 0:
            moved += d
            if not k.endswith(suffix):
                ctx.viol_count[k] -= d
                if ctx.viol_count[k] <= 0:
                    del ctx.viol_count[k]
                ctx.viol_count[k + suffix] += d
    return moved


def _len_class(n):
    return '<72' if n < 72 else ('72-88' if n <= 88 else ('89-199' if n < 200 else ('200-399' if n < 400 else '400+')))


def long_files_check(ctx, label, fps, lists, rr, pre='long'):
    """`files` of every paragraph against the list it was given.  A difference is NOT a verdict by itself (the statement
    is about matches / find_files_paragraph): it contributes the names that tell the two lists apart, which are then judged
    like every other name, and it goes into the mechanism key.  Returns (differs, extra names, description)."""
    differs, extra, what = False, [], None
    for k, (p, gl) in enumerate(zip(fps, lists)):
        ctx.mon('M.%s.files' % pre)
        try:
            got = tuple(p.files)
        except Exception as e:
            got = '%s: %s' % (type(e).__name__, e)
        if got == tuple(gl.patterns):
            continue
        differs = True
        if what is None:
            what = 'Files paragraph #%d (%s): files is %r, the list given was %r' % (k, label, got, gl.patterns)
        if isinstance(got, tuple):
            a, b = set(gl.patterns), set(got)
            for pat in sorted(b - a)[:8] + sorted(a - b)[:8]:
                nm = _literal_name(rr, pat)
                if nm is not None and nm not in extra:
                    extra.append(nm)
    return differs, extra, what


def run_long(ctx, case):
    """Paragraphs BUILT through the API with long pattern lists.  Stages: built -> [one list re-assigned] -> dump() and
    re-parse; at every stage `files` against the list given (M.long.files), every paragraph's matches() against the glob
    model (M.match) and find_files_paragraph against the last-match rule (M.long.find / M.long.reparse.find)."""
    from debian import copyright as cp
    paras = case['paras']
    names = list(case['names'])
    ncls = list(case.get('ncls') or [])
    strict = case.get('strict', True)
    rr = random.Random('long/%d/%d' % (len(paras), len(names)))
    # the same machinery drives two classes, kept apart in counters / monitors / mechanism keys: LONG pattern lists
    # ('long') and patterns that START with '.' or '/' (case['cls'] == 'lead')
    pre = 'lead' if case.get('cls') == 'lead' else 'long'
    what_cls = 'leading-dot-or-slash-pattern' if pre == 'lead' else 'long-pattern-list'
    ctx.count('%s:documents' % pre)
    probe = names[0] if names else 'x'
    c = cp.Copyright()
    tags, fps, lists, earlier = [], [], [], {}
    for i, p in enumerate(paras):
        if 'F' not in p:
            c.add_license_paragraph(cp.LicenseParagraph.create(cp.License('L%d' % i, 'text')))
            continue
        pats, via, tag = p['F'], p.get('via', 'create'), 'c%d' % i
        conv = tuple if p.get('seq') == 'tuple' else list
        if via == 'create':
            para = cp.FilesParagraph.create(conv(pats), tag, cp.License('L'))
            c.add_files_paragraph(para)
        else:
            para = make_para(p['first'], tag)
            if via == 'assign-in-doc':
                c.add_files_paragraph(para)
            call_matches(para, probe)            # not judged: the paragraph has answered for its first list before
            para.files = conv(pats)
            ctx.count('op:files-assign')
            if via != 'assign-in-doc':
                c.add_files_paragraph(para)
            earlier[len(fps)] = [G.GlobList(p['first'])]
        gl = G.GlobList(pats)
        gl.cheap = pre
        tags.append(tag)
        fps.append(para)
        lists.append(gl)
        joined = len(' '.join(pats))
        ctx.count('%s:paragraph-via:%s' % (pre, via))
        ctx.count('%s:handed-over-as:%s' % (pre, conv.__name__))
        ctx.count('%s:joined-length:%s' % (pre, _len_class(joined)))
        if joined >= 89:
            ctx.count('%s:lists-beyond-one-text-line' % pre)
        if any(len(x) >= 100 for x in pats):
            ctx.count('%s:list-with-single-pattern-of-100+-characters' % pre)
        ctx.count('%s:patterns' % pre, len(pats))
        ctx.count('%s:patterns-with-hyphen' % pre, sum(1 for x in pats if '-' in x))
        ctx.count('%s:patterns-with-wildcard' % pre, sum(1 for x in pats if '*' in x or '?' in x))
        if not gl.legal:
            ctx.count('%s:list-with-illegal-escape' % pre)
        if pre == 'lead':
            for x in pats:
                ctx.count('lead:pattern-starts-with:%s' % lead_class(x))
    for cls in ncls:
        ctx.count('%s:name:%s' % (pre, cls))
    if pre == 'lead':
        for x in names:
            ctx.count('lead:name-starts-with:%s' % lead_class(x))

    def small_of(name):
        small = dict((k, v) for k, v in case.items() if k != 'ncls')
        small['names'] = [name]
        return small

    whole = dict(case)
    whole.pop('ncls', None)
    got_order = _para_ids(c.all_files_paragraphs())
    if got_order != tags:
        ctx.violation('files-paragraph-order-differs-from-documented-insertion', 'Files paragraphs added in order %r are listed '
                      'as %r' % (tags, got_order), whole)
        return

    def stage(label, doc, fps_, lists_, earlier_, mon):
        """True => nothing recorded at this stage."""
        mark = _viol_mark(ctx)
        differs, extra, what = long_files_check(ctx, label, fps_, lists_, rr, pre)
        nm = names + [x for x in extra if x not in names]
        before = ctx.counters['op:matches']
        doc_queries(ctx, case, doc, fps_, lists_, nm, earlier_, '-%s-%s' % (pre, label), small_of=small_of, mon=mon, cnt='%s-find' % pre)
        ctx.evaluations += len(nm)
        ctx.count('%s:matches-observed/%s' % (pre, label), ctx.counters['op:matches'] - before)
        suffix = '/%s-%s' % (what_cls, label)
        if differs:
            suffix += '/files-differs-from-the-list-given'
        n = _viol_retag(ctx, mark, suffix)
        if n:
            if differs:
                ctx.violations[-1]['msg'] = (ctx.violations[-1]['msg'] + ' || ' + what)[:2000]
            return False
        if differs:
            # no name of the workload tells the stored list from the given one: nothing this property talks about changed
            ctx.count('%s:note:files-differs-from-the-list-given-without-observed-effect/%s' % (pre, label))
            ctx.extra.setdefault('%s_notes' % pre, [])
            if len(ctx.extra['%s_notes' % pre]) < 3:
                ctx.extra['%s_notes' % pre].append(what[:600])
        return True

    if not stage('built-through-api', c, fps, lists, earlier, 'M.%s.find' % pre):
        return
    if not any(not gl.legal for gl in lists):
        for name in names:
            hits = [k for k, gl in enumerate(lists) if gl.matches(name)]
            if hits and len(' '.join(lists[hits[-1]].patterns)) >= 89:
                ctx.count('%s-find:resolves-to-paragraph-with-list-beyond-one-text-line' % pre)
                if len(hits) >= 2:
                    ctx.count('%s-find:last-of-several-matching-is-a-long-list' % pre)
            if pre == 'lead':
                if hits and any(lead_class(p) != 'other' and G.matches(t, name)
                                for p, t in zip(lists[hits[-1]].patterns, lists[hits[-1]].toks)):
                    ctx.count('lead-find:resolves-through-pattern-starting-with-dot-or-slash')
                    if len(hits) >= 2:
                        ctx.count('lead-find:last-of-several-matching-through-pattern-starting-with-dot-or-slash')
                if not hits and lead_class(name) != 'other':
                    ctx.count('lead-find:name-starting-with-dot-or-slash-resolves-to-none')
                if hits and lead_class(name) == 'other':
                    ctx.count('lead-find:name-without-leading-dot-or-slash-resolves-to-a-paragraph')
    if case.get('reassign'):
        k, newp = case['reassign']
        if k < len(fps):
            old = lists[k]
            fps[k].files = list(newp)
            lists = list(lists)
            lists[k] = G.GlobList(newp)
            lists[k].cheap = pre
            earlier = dict(earlier)
            earlier[k] = [old] + list(earlier.get(k, ()))
            ctx.count('op:files-assign')
            ctx.count('%s:re-assigned-lists' % pre)
            if old.legal and lists[k].legal:
                for name in names:
                    if old.matches(name) != lists[k].matches(name):
                        ctx.mon('M.stale')
                        ctx.count('%s:stale-distinguishing-name' % pre)
            if not stage('re-assigned', c, fps, lists, earlier, 'M.%s.find' % pre):
                return
    # dump() -> re-parse
    ctx.mon('M.%s.reparse' % pre)
    mode = case.get('reparse', 'parse')
    try:
        if case.get('dump') == 'file':
            f = io.StringIO()
            c.dump(f)
            text = f.getvalue()
        else:
            text = c.dump()
        body = text.split('\n')
        if body and body[-1] == '':
            body.pop()
        c2 = parse_doc(ctx, body, mode, strict)
        fps2 = list(c2.all_files_paragraphs())
        ids2 = _para_ids(fps2)
    except Exception as e:
        ctx.violation('dump-of-built-document-does-not-reparse/' + what_cls, 'dump() then Copyright(...) (source %s%s) raised '
                      '%s: %s' % (mode, '' if strict else ', strict=False', type(e).__name__, e), whole)
        return
    ctx.count('%s:dump-%s' % (pre, 'written-to-file-object' if case.get('dump') == 'file' else 'returned'))
    ctx.count('%s:reparse-source:%s' % (pre, mode))
    ctx.count('%s:reparse-%s' % (pre, 'strict' if strict else 'strict=False'))
    if ids2 != tags:
        ctx.violation('dumped-document-has-different-files-paragraphs/' + what_cls, 'dump() then parse shows Files paragraphs '
                      '%r; the live document has %r' % (ids2, tags), whole)
        return
    stage('after-dump-and-reparse', c2, fps2, lists, {}, 'M.%s.reparse.find' % pre)


def _show(res):
    if res[0] != 'value':
        return res[0]
    return 'foreign object' if res[1] is _MISS else ('None' if res[1] is None else '#%d' % res[1])


def run_raw(ctx, case):
    from debian import copyright as cp
    pats = case['pats']
    gl = G.GlobList(pats)
    names = case['names']
    ctx.count('op:globs_to_re-direct')
    if any(ch in p for p in pats for ch in ' \t\n'):
        ctx.count('raw:list-with-whitespace')
    # error reporting of globs_to_re itself
    ctx.mon('M.error')
    try:
        cp.globs_to_re(list(pats))
        err = None
    except cp.MachineReadableFormatError as e:
        err = 'format-error'
    except Exception as e:
        err = '%s: %s' % (type(e).__name__, e)
    small = {'kind': 'raw', 'pats': pats, 'names': names[:1]}
    if gl.legal and err is not None:
        ctx.violation('legal-pattern-rejected-as-format-error' if err == 'format-error' else 'matches-raises-unexpected-exception',
                      'globs_to_re(%r): every glob is legal but it raised %s' % (pats, err), small)
        return
    if not gl.legal and err != 'format-error':
        ctx.violation('illegal-escape-not-reported' if err is None else 'illegal-escape-wrong-exception-type',
                      'globs_to_re(%r): illegal escape (%s) but %s' % (pats, gl.illegal,
                                                                        'no error was raised' if err is None else 'raised ' + err), small)
        return
    # matching semantics, observed through the real matches()
    try:
        para = _raw_fresh(pats)
    except (AttributeError, TypeError) as e:
        ctx.count('raw:detached')
        ctx.extra['raw_detached'] = '%s: %s' % (type(e).__name__, e)
        return
    ctx.evaluations += max(0, len(names) - 1)
    for name in names:
        check_matches(ctx, para, gl, name, {'kind': 'raw', 'pats': pats, 'names': [name]}, mk=_raw_fresh)
        ctx.count('raw:matches-observed')


def run_case(ctx, case):
    kind = case['kind']
    if kind == 'para':
        run_para(ctx, case)
    elif kind == 'enum':
        run_enum(ctx, case)
    elif kind == 'hist':
        run_hist(ctx, case)
    elif kind == 'doc':
        run_doc(ctx, case)
    elif kind == 'raw':
        run_raw(ctx, case)
    elif kind == 'build':
        run_build(ctx, case)
    elif kind == 'long':
        run_long(ctx, case)
    elif kind == 'cmt':
        run_cmt(ctx, case)
    elif kind == 'incr':
        run_incr(ctx, case)
    elif kind == 'enc':
        run_enc(ctx, case)
    elif kind == 'pgp':
        run_pgp(ctx, case)
    elif kind == 'ubl':
        run_ubl(ctx, case)
    else:
        raise ValueError('unknown case kind %r' % kind)


def finish(ctx):
    ctx.extra['exhaustive_subspaces'] = ['%d-pattern lists over %r (pattern length 1..%d) x all names over %r of length 0..%d'
                                         % (ln, pa, pl, na, nl) for (pa, pl, ln, na, nl) in _enum_specs(ctx.tier)]


# ~50% of what a run on the current tree measures (quick: minimum over seeds 0-3; thorough: seed 0)
FLOORS = {'quick': {'nontrivial': 290000,
                    'monitors': {'M.match': 450000, 'M.ws.order': 1800, 'M.ws.find': 9000, 'M.ws-build.order': 300, 'M.find': 36000, 'M.error': 13000, 'M.stale': 13000,
                                 'M.build.find': 64000, 'M.build.order': 10000, 'M.build.reparse': 9900},
                    'counters': {'nontrivial:near-miss': 195000, 'nontrivial:hit': 164000,
                                 # parsed documents with whitespace-only separator lines
                                 'ws:documents': 1800, 'ws:sep:header/Files': 970, 'ws:sep:Files/Files': 1400,
                                 'ws:sep:Files/License': 920, 'ws:sep:License/Files': 880,
                                 'ws:source-family:list': 780, 'ws:source-family:file': 990,
                                 'ws:line:blanks': 1900, 'ws:line:tabs': 1400, 'ws:line:blanks+tabs': 2400,
                                 'ws:run:only-whitespace-lines': 2000, 'ws:run:whitespace-line-first-then-empty': 1200,
                                 'ws:run:empty-line-first': 1200,
                                 'ws:whitespace-line-directly-after-continuation-line': 1250,
                                 'ws:whitespace-line-directly-after-files-value': 690,
                                 'ws:matches-observed': 23000, 'ws-find:several-paragraphs-match': 2200,
                                 'ws-find:resolves-to-paragraph-next-to-whitespace-only-separator': 5600,
                                 'ws-find:shadowed-match-next-to-whitespace-only-separator': 2100,
                                 'ws-build:documents': 300,
                                 'ws-build:find-on-history-from-start-with-whitespace-only-separators': 7300,
                                 'find:several-paragraphs-match': 7000, 'op:find-after-reassign': 11000,
                                 'op:match-after-2+-unobserved-assignments': 2000,
                                 'raw:list-with-whitespace': 2400, 'raw:matches-observed': 23000,
                                 'enum:evaluations': 15000,
                                 'build:histories': 2500, 'op:build-add-files': 9500, 'op:build-add-license': 1900,
                                 'op:build-files-assign': 1700, 'op:find-build-reparsed': 60000,
                                 'build-find:several-paragraphs-match': 19500,
                                 'build:find-on-document-without-files-paragraph': 8000,
                                 'build:find-hit-after-query-on-document-without-files-paragraph': 13500,
                                 'build:find-resolves-to-overlapping-paragraph-added-behind-sole-first-files-and-licenses': 3000,
                                 'build:find-resolves-to-paragraph-added-to-parsed-document-ending-in-license': 12500,
                                 'build:find-resolves-into-run-of-2+-adds': 7900,
                                 'build:first-files-paragraph-added-to-license-only-document': 440}},
          # distinct_nontrivial is bounded by the per-shard recording cap (14 x 400000) in this tier
          'thorough': {'nontrivial': 2700000,
                       'monitors': {'M.match': 19000000, 'M.ws.order': 75000, 'M.ws.find': 370000, 'M.ws-build.order': 9000, 'M.find': 1400000, 'M.error': 790000, 'M.stale': 530000,
                                    'M.build.find': 2380000, 'M.build.order': 365000, 'M.build.reparse': 350000},
                       'counters': {'nontrivial:near-miss': 7900000, 'nontrivial:hit': 6700000,
                                    # parsed documents with whitespace-only separator lines
                                    'ws:documents': 75000, 'ws:sep:header/Files': 39800, 'ws:sep:Files/Files': 94800,
                                    'ws:sep:Files/License': 51300, 'ws:sep:License/Files': 49400,
                                    'ws:source-family:list': 33200, 'ws:source-family:file': 41700,
                                    'ws:line:blanks': 105000, 'ws:line:tabs': 79600, 'ws:line:blanks+tabs': 132000,
                                    'ws:run:only-whitespace-lines': 113000, 'ws:run:whitespace-line-first-then-empty': 68000,
                                    'ws:run:empty-line-first': 68000,
                                    'ws:whitespace-line-directly-after-continuation-line': 74500,
                                    'ws:whitespace-line-directly-after-files-value': 42500,
                                    'ws:matches-observed': 1290000, 'ws-find:several-paragraphs-match': 125000,
                                    'ws-find:resolves-to-paragraph-next-to-whitespace-only-separator': 244000,
                                    'ws-find:shadowed-match-next-to-whitespace-only-separator': 118000,
                                    'ws-build:documents': 9000,
                                    'ws-build:find-on-history-from-start-with-whitespace-only-separators': 275000,
                                    'find:several-paragraphs-match': 388000, 'op:find-after-reassign': 440000,
                                    'op:match-after-2+-unobserved-assignments': 84000,
                                    'raw:list-with-whitespace': 129000, 'raw:matches-observed': 700000,
                                    'enum:evaluations': 200000,
                                    'build:histories': 75000, 'op:build-add-files': 360000, 'op:build-add-license': 73000,
                                    'op:build-files-assign': 73000, 'op:find-build-reparsed': 2230000,
                                    'build-find:several-paragraphs-match': 830000,
                                    'build:find-on-document-without-files-paragraph': 250000,
                                    'build:find-hit-after-query-on-document-without-files-paragraph': 555000,
                                    'build:find-resolves-to-overlapping-paragraph-added-behind-sole-first-files-and-licenses': 103000,
                                    'build:find-resolves-to-paragraph-added-to-parsed-document-ending-in-license': 530000,
                                    'build:find-resolves-into-run-of-2+-adds': 318000,
                                    'build:first-files-paragraph-added-to-license-only-document': 13600}}}

# Round-5 classes: LONG pattern lists in paragraphs built through the API ('long:*', 'long-find:*', M.long.*) and
# whitespace-separated documents parsed with Copyright(..., strict=False) ('ws-ns:*', 'ws-ns-find:*', M.ws-ns.*); also the
# totals those classes feed (M.match, M.error, M.stale, nontrivial*).  ~50% of the measured values (quick: minimum over
# seeds 0-3; thorough: seed 0).  A run that never builds a long list, never re-assigns / dumps / re-parses one, or never
# parses non-strictly is INCONCLUSIVE, not held.
_R5_FLOORS = {
    'quick': {
        'nontrivial': 320000,
        'M': {
            'M.match': 520000, 'M.error': 14000, 'M.stale': 14000, 'M.long.files': 2400, 'M.long.find': 14000,
            'M.long.reparse': 450, 'M.long.reparse.find': 10000, 'M.ws-ns.order': 720, 'M.ws-ns.find': 3600},
        'C': {
            'nontrivial:near-miss': 220000, 'nontrivial:hit': 170000, 'long:documents': 450,
            'long:lists-beyond-one-text-line': 780, 'long:joined-length:72-88': 79, 'long:joined-length:89-199': 200,
            'long:joined-length:200-399': 340, 'long:joined-length:400+': 220,
            'long:list-with-single-pattern-of-100+-characters': 260, 'long:paragraph-via:create': 560,
            'long:paragraph-via:assign': 210, 'long:paragraph-via:assign-in-doc': 220, 'long:handed-over-as:list': 790,
            'long:handed-over-as:tuple': 190, 'long:patterns-with-hyphen': 4600, 'long:patterns-with-wildcard': 1600,
            'long:name:whole-hyphenated-pattern': 2600, 'long:name:whole-single-long-pattern': 230,
            'long:name:hyphen-fragment': 4300, 'long:name:width-fragment': 420, 'long:name:glued-neighbours': 1100,
            'long:re-assigned-lists': 190, 'long:stale-distinguishing-name': 430,
            'long:matches-observed/built-through-api': 24000, 'long:matches-observed/re-assigned': 11000,
            'long:matches-observed/after-dump-and-reparse': 24000, 'long-find:several-paragraphs-match': 1900,
            'long-find:resolves-to-paragraph-with-list-beyond-one-text-line': 3000,
            'long-find:last-of-several-matching-is-a-long-list': 780, 'long:dump-returned': 210,
            'long:dump-written-to-file-object': 220, 'long:reparse-strict': 310, 'long:reparse-strict=False': 130,
            'long:oracle-cross-checked-with-distance-dp': 4700, 'ws-ns:documents': 720, 'ws-ns:sep:header/Files': 400,
            'ws-ns:sep:Files/Files': 590, 'ws-ns:sep:Files/License': 390, 'ws-ns:sep:License/Files': 370,
            'ws-ns:run:2+-lines': 1800, 'ws-ns:run:empty-line-first': 900, 'ws-ns:run:whitespace-line-first-then-empty': 760,
            'ws-ns:longest-separator-run:3-lines': 310, 'ws-ns:longest-separator-run:4-lines': 280,
            'ws-ns:source-family:list': 300, 'ws-ns:source-family:file': 390, 'ws-ns:matches-observed': 9200,
            'ws-ns-find:several-paragraphs-match': 930,
            'ws-ns-find:resolves-to-paragraph-next-to-whitespace-only-separator': 2300,
            'ws-build:documents-parsed-with-strict=False': 95},
    },
    'thorough': {
        'nontrivial': 2700000,
        'M': {
            'M.match': 22000000, 'M.error': 830000, 'M.stale': 540000, 'M.long.files': 95000, 'M.long.find': 600000,
            'M.long.reparse': 14000, 'M.long.reparse.find': 410000, 'M.ws-ns.order': 21000, 'M.ws-ns.find': 100000},
        'C': {
            'nontrivial:near-miss': 9200000, 'nontrivial:hit': 7100000, 'long:documents': 14000,
            'long:lists-beyond-one-text-line': 30000, 'long:joined-length:72-88': 3300, 'long:joined-length:89-199': 3900,
            'long:joined-length:200-399': 10000, 'long:joined-length:400+': 16000,
            'long:list-with-single-pattern-of-100+-characters': 11000, 'long:paragraph-via:create': 21000,
            'long:paragraph-via:assign': 8700, 'long:paragraph-via:assign-in-doc': 8600, 'long:handed-over-as:list': 30000,
            'long:handed-over-as:tuple': 8700, 'long:patterns-with-hyphen': 220000, 'long:patterns-with-wildcard': 80000,
            'long:name:whole-hyphenated-pattern': 120000, 'long:name:whole-single-long-pattern': 9200,
            'long:name:hyphen-fragment': 170000, 'long:name:width-fragment': 15000, 'long:name:glued-neighbours': 47000,
            'long:re-assigned-lists': 6200, 'long:stale-distinguishing-name': 13000,
            'long:matches-observed/built-through-api': 1200000, 'long:matches-observed/re-assigned': 560000,
            'long:matches-observed/after-dump-and-reparse': 1200000, 'long-find:several-paragraphs-match': 89000,
            'long-find:resolves-to-paragraph-with-list-beyond-one-text-line': 130000,
            'long-find:last-of-several-matching-is-a-long-list': 35000, 'long:dump-returned': 7000,
            'long:dump-written-to-file-object': 6900, 'long:reparse-strict': 9700, 'long:reparse-strict=False': 4200,
            'long:oracle-cross-checked-with-distance-dp': 190000, 'ws-ns:documents': 21000, 'ws-ns:sep:header/Files': 11000,
            'ws-ns:sep:Files/Files': 28000, 'ws-ns:sep:Files/License': 15000, 'ws-ns:sep:License/Files': 14000,
            'ws-ns:run:2+-lines': 69000, 'ws-ns:run:empty-line-first': 34000,
            'ws-ns:run:whitespace-line-first-then-empty': 30000, 'ws-ns:longest-separator-run:3-lines': 8100,
            'ws-ns:longest-separator-run:4-lines': 10000, 'ws-ns:source-family:list': 9300, 'ws-ns:source-family:file': 11000,
            'ws-ns:matches-observed': 360000, 'ws-ns-find:several-paragraphs-match': 35000,
            'ws-ns-find:resolves-to-paragraph-next-to-whitespace-only-separator': 71000,
            'ws-build:documents-parsed-with-strict=False': 2900},
    },
}
for _t, _d in _R5_FLOORS.items():
    FLOORS[_t]['nontrivial'] = _d['nontrivial']
    FLOORS[_t]['monitors'].update(_d['M'])
    FLOORS[_t]['counters'].update(_d['C'])

# Round-7 classes: BYTES documents with '#' comment lines ('cmt:*', 'cmt-find:*', M.cmt.* - the str control M.cmt.str.* and the
# bytes parse M.cmt.*) and paragraphs built through the API whose patterns START with '.' or '/' ('lead:*', 'lead-find:*',
# M.lead.*); also the totals those classes feed.  ~50% of the measured values (quick: minimum over seeds 0-3; thorough: seed
# 0).  A run that never parses a bytes document with comments at each of the positions / through each of the source kinds,
# or never builds a paragraph with each kind of leading characters, is INCONCLUSIVE, not held.
_R7_FLOORS = {
    'quick': {
        'nontrivial': 340000,
        'M': {
            'M.match': 570000, 'M.error': 14000, 'M.stale': 14000, 'M.cmt.str.order': 810, 'M.cmt.str.files': 1900,
            'M.cmt.str.find': 4300, 'M.cmt.order': 810, 'M.cmt.files': 1900, 'M.cmt.find': 4300, 'M.cmt.same': 4300,
            'M.lead.files': 1800, 'M.lead.find': 6400, 'M.lead.reparse': 350, 'M.lead.reparse.find': 4700},
        'C': {
            'cmt-find:last-of-several-matching': 790, 'cmt-find:none-matches': 1400,
            'cmt-find:one-paragraph-matches': 2000, 'cmt-find:resolves-to-paragraph-with-multi-line-files-field': 1200,
            'cmt-find:several-paragraphs-match': 790, 'cmt:comment-lines': 6300, 'cmt:documents': 810,
            'cmt:matches-observed/bytes-source': 10000, 'cmt:matches-observed/str-source': 10000,
            'cmt:no-end-of-line-after-last-line': 110, 'cmt:pattern-containing-#-that-is-not-a-comment': 99,
            'cmt:position:after-last-field-of-paragraph': 180, 'cmt:position:after-last-paragraph': 280,
            'cmt:position:before-first-field-of-paragraph': 320, 'cmt:position:between-fields': 350,
            'cmt:position:between-files-field-and-next-field': 230,
            'cmt:position:comment-only-block-between-paragraphs': 870, 'cmt:position:commented-out-field-line': 620,
            'cmt:position:commented-out-field-line-inside-files-field': 320, 'cmt:position:inside-files-field': 950,
            'cmt:position:inside-other-multi-line-field': 99, 'cmt:position:top-of-file': 150,
            'cmt:source:bytes-buffered': 45, 'cmt:source:bytes-gen': 96, 'cmt:source:bytes-iter': 40,
            'cmt:source:bytes-list': 130, 'cmt:source:bytes-list-noeol': 44, 'cmt:source:bytes-tuple': 41,
            'cmt:source:bytes-whole': 45, 'cmt:source:bytesio': 130, 'cmt:source:disk-rb': 130,
            'cmt:source:disk-rb-raw': 44, 'cmt:strict': 520, 'cmt:strict=False': 260,
            'lead-find:last-of-several-matching-through-pattern-starting-with-dot-or-slash': 350,
            'lead-find:name-starting-with-dot-or-slash-resolves-to-none': 1600,
            'lead-find:name-without-leading-dot-or-slash-resolves-to-a-paragraph': 320, 'lead-find:none-matches': 5600,
            'lead-find:one-paragraph-matches': 4300, 'lead-find:resolves-through-pattern-starting-with-dot-or-slash': 1200,
            'lead-find:several-paragraphs-match': 980, 'lead:documents': 350, 'lead:dump-returned': 160,
            'lead:dump-written-to-file-object': 170, 'lead:handed-over-as:list': 600, 'lead:handed-over-as:tuple': 150,
            'lead:matches-observed/after-dump-and-reparse': 11000, 'lead:matches-observed/built-through-api': 11000,
            'lead:matches-observed/re-assigned': 4000, 'lead:name-starts-with:.': 670, 'lead:name-starts-with:..': 170,
            'lead:name-starts-with:...': 210, 'lead:name-starts-with:../': 530, 'lead:name-starts-with:./': 720,
            'lead:name-starts-with:/': 1100, 'lead:name-starts-with://': 250, 'lead:name-starts-with:other': 1000,
            'lead:name:changed-by-reassignment': 150, 'lead:name:edited': 260, 'lead:name:fixed-probe': 620,
            'lead:name:leading-characters-added': 980, 'lead:name:leading-characters-stripped': 1800,
            'lead:name:whole-pattern': 950, 'lead:nontrivial': 10000, 'lead:oracle-cross-checked-with-distance-dp': 12000,
            'lead:paragraph-via:assign': 110, 'lead:paragraph-via:assign-in-doc': 100, 'lead:paragraph-via:create': 550,
            'lead:pattern-starts-with:.': 270, 'lead:pattern-starts-with:..': 53, 'lead:pattern-starts-with:...': 83,
            'lead:pattern-starts-with:../': 180, 'lead:pattern-starts-with:./': 280, 'lead:pattern-starts-with:/': 340,
            'lead:pattern-starts-with://': 48, 'lead:pattern-starts-with:other': 270, 'lead:patterns': 1500,
            'lead:patterns-with-wildcard': 780, 'lead:re-assigned-lists': 110, 'lead:reparse-strict': 240,
            'lead:reparse-strict=False': 100, 'lead:stale-distinguishing-name': 410, 'nontrivial:hit': 180000,
            'nontrivial:near-miss': 230000},
    },
    'thorough': {
        'nontrivial': 2700000,
        'M': {
            'M.match': 24000000, 'M.error': 850000, 'M.stale': 560000, 'M.cmt.str.order': 30000, 'M.cmt.str.files': 89000,
            'M.cmt.str.find': 160000, 'M.cmt.order': 30000, 'M.cmt.files': 89000, 'M.cmt.find': 160000,
            'M.cmt.same': 160000, 'M.lead.files': 70000, 'M.lead.find': 250000, 'M.lead.reparse': 10000,
            'M.lead.reparse.find': 180000},
        'C': {
            'cmt-find:last-of-several-matching': 33000, 'cmt-find:none-matches': 53000,
            'cmt-find:one-paragraph-matches': 74000, 'cmt-find:resolves-to-paragraph-with-multi-line-files-field': 50000,
            'cmt-find:several-paragraphs-match': 33000, 'cmt:comment-lines': 280000, 'cmt:documents': 30000,
            'cmt:matches-observed/bytes-source': 490000, 'cmt:matches-observed/str-source': 490000,
            'cmt:no-end-of-line-after-last-line': 4500, 'cmt:pattern-containing-#-that-is-not-a-comment': 5000,
            'cmt:position:after-last-field-of-paragraph': 8200, 'cmt:position:after-last-paragraph': 10000,
            'cmt:position:before-first-field-of-paragraph': 13000, 'cmt:position:between-fields': 17000,
            'cmt:position:between-files-field-and-next-field': 11000,
            'cmt:position:comment-only-block-between-paragraphs': 39000, 'cmt:position:commented-out-field-line': 29000,
            'cmt:position:commented-out-field-line-inside-files-field': 16000, 'cmt:position:inside-files-field': 45000,
            'cmt:position:inside-other-multi-line-field': 3900, 'cmt:position:top-of-file': 5700,
            'cmt:source:bytes-buffered': 1700, 'cmt:source:bytes-gen': 3500, 'cmt:source:bytes-iter': 1800,
            'cmt:source:bytes-list': 5300, 'cmt:source:bytes-list-noeol': 1700, 'cmt:source:bytes-tuple': 1700,
            'cmt:source:bytes-whole': 1700, 'cmt:source:bytesio': 5100, 'cmt:source:disk-rb': 5300,
            'cmt:source:disk-rb-raw': 1700, 'cmt:strict': 19000, 'cmt:strict=False': 10000,
            'lead-find:last-of-several-matching-through-pattern-starting-with-dot-or-slash': 17000,
            'lead-find:name-starting-with-dot-or-slash-resolves-to-none': 61000,
            'lead-find:name-without-leading-dot-or-slash-resolves-to-a-paragraph': 14000, 'lead-find:none-matches': 210000,
            'lead-find:one-paragraph-matches': 170000,
            'lead-find:resolves-through-pattern-starting-with-dot-or-slash': 54000,
            'lead-find:several-paragraphs-match': 51000, 'lead:documents': 10000, 'lead:dump-returned': 5400,
            'lead:dump-written-to-file-object': 5400, 'lead:handed-over-as:list': 23000, 'lead:handed-over-as:tuple': 6800,
            'lead:matches-observed/after-dump-and-reparse': 540000, 'lead:matches-observed/built-through-api': 540000,
            'lead:matches-observed/re-assigned': 190000, 'lead:name-starts-with:.': 24000,
            'lead:name-starts-with:..': 7400, 'lead:name-starts-with:...': 10000, 'lead:name-starts-with:../': 22000,
            'lead:name-starts-with:./': 30000, 'lead:name-starts-with:/': 44000, 'lead:name-starts-with://': 11000,
            'lead:name-starts-with:other': 41000, 'lead:name:changed-by-reassignment': 4900, 'lead:name:edited': 10000,
            'lead:name:fixed-probe': 18000, 'lead:name:leading-characters-added': 41000,
            'lead:name:leading-characters-stripped': 76000, 'lead:name:whole-pattern': 39000, 'lead:nontrivial': 520000,
            'lead:oracle-cross-checked-with-distance-dp': 610000, 'lead:paragraph-via:assign': 4500,
            'lead:paragraph-via:assign-in-doc': 4500, 'lead:paragraph-via:create': 20000,
            'lead:pattern-starts-with:.': 9900, 'lead:pattern-starts-with:..': 2400, 'lead:pattern-starts-with:...': 3800,
            'lead:pattern-starts-with:../': 7700, 'lead:pattern-starts-with:./': 12000,
            'lead:pattern-starts-with:/': 13000, 'lead:pattern-starts-with://': 2000,
            'lead:pattern-starts-with:other': 10000, 'lead:patterns': 62000, 'lead:patterns-with-wildcard': 33000,
            'lead:re-assigned-lists': 3700, 'lead:reparse-strict': 7600, 'lead:reparse-strict=False': 3300,
            'lead:stale-distinguishing-name': 13000, 'nontrivial:hit': 7500000, 'nontrivial:near-miss': 9800000},
    },
}
for _t, _d in _R7_FLOORS.items():
    FLOORS[_t]['nontrivial'] = _d['nontrivial']
    FLOORS[_t]['monitors'].update(_d['M'])
    FLOORS[_t]['counters'].update(_d['C'])

# Round-8 class: documents built INCREMENTALLY through the Copyright API with SHARED license short names ('incr:*', 'incr-find:*',
# 'op:incr-*', M.incr.*): floors per (operation x relation of the new short name to the document), per start kind, per re-parse
# setting.  ~50% of the measured values (quick: minimum over seeds 0-3; thorough: seed 0).  A run that never adds a License
# paragraph under the short name of an earlier Files / License paragraph (or a Files paragraph under that of an earlier License /
# Files paragraph), never adds License paragraphs before the first Files paragraph, or never re-parses the dump with and without
# `strict`, is INCONCLUSIVE, not held.  'Q-LOWERED': the quick sizes of para / hist / doc / build were trimmed by 5..8% to pay for
# the class; the floors those sizes feed were re-measured (same rule).
_R8_FLOORS = {
    'quick': {
        'M': {
            'M.incr.find': 10000, 'M.incr.reparse': 3700, 'M.incr.reparse.find': 21000, 'M.incr.start': 180,
            'M.incr.step': 1600},
        'C': {
            'incr-find:last-of-several-matching-files-paragraphs-under-one-short-name': 1100,
            'incr-find:none-matches': 4400, 'incr-find:one-paragraph-matches': 3300,
            'incr-find:resolves-to-files-paragraph-added-behind-license-paragraphs-of-a-files-less-document': 1000,
            'incr-find:resolves-to-files-paragraph-whose-short-name-a-license-paragraph-carries': 4100,
            'incr-find:several-paragraphs-match': 2600, 'incr:add-files/first-files-paragraph': 65,
            'incr:add-files/first-files-paragraph-behind-license-paragraphs': 120,
            'incr:add-files/same-copyright-and-short-name-as-earlier-files-paragraph': 140,
            'incr:add-files/short-name-not-in-document': 250,
            'incr:add-files/short-name-of-earlier-files-and-license-paragraphs': 290,
            'incr:add-files/short-name-of-earlier-files-paragraph': 68,
            'incr:add-files/short-name-of-earlier-license-paragraph': 180,
            'incr:add-files/short-name-of-license-paragraph-added-before-any-files-paragraph': 190,
            'incr:add-license/before-any-files-paragraph': 260,
            'incr:add-license/before-any-files-paragraph/short-name-of-earlier-license-paragraph': 110,
            'incr:add-license/identical-license-as-earlier-license-paragraph': 140,
            'incr:add-license/short-name-not-in-document': 290,
            'incr:add-license/short-name-of-earlier-files-and-license-paragraphs': 210,
            'incr:add-license/short-name-of-earlier-files-paragraph': 140,
            'incr:add-license/short-name-of-earlier-license-paragraph': 160,
            'incr:find-on-document-without-files-paragraph': 1700,
            'incr:first-files-paragraph-added-to-license-only-document': 120, 'incr:histories': 350,
            'incr:reparse-strict': 1800, 'incr:reparse-strict=False': 1800, 'incr:start-empty': 140,
            'incr:start-parsed': 180, 'incr:start-parsed-with-shared-short-name': 93,
            'incr:start-parsed-with-strict=False': 42, 'op:incr-add-files': 810, 'op:incr-add-license': 830},
        'Q-LOWERED': {
            'M': {'M.ws-build.order': 270, 'M.build.reparse': 9100, 'M.build.find': 59000, 'M.build.order': 9400, 'M.find': 34000},
            'C': {'ws-build:find-on-history-from-start-with-whitespace-only-separators': 6500, 'ws-build:documents': 270,
                  'op:build-files-assign': 1500, 'build:histories': 2300, 'build-find:several-paragraphs-match': 17000,
                  'op:build-add-files': 8700, 'op:find-build-reparsed': 55000,
                  'build:first-files-paragraph-added-to-license-only-document': 400,
                  'ws-build:documents-parsed-with-strict=False': 88, 'find:several-paragraphs-match': 6500,
                  'build:find-resolves-to-overlapping-paragraph-added-behind-sole-first-files-and-licenses': 2800,
                  'build:find-on-document-without-files-paragraph': 7400,
                  'build:find-hit-after-query-on-document-without-files-paragraph': 12000,
                  'build:find-resolves-into-run-of-2+-adds': 7300, 'op:find-after-reassign': 10000,
                  'build:find-resolves-to-paragraph-added-to-parsed-document-ending-in-license': 11000,
                  'op:build-add-license': 1800},
            'nontrivial': 330000},
    },
    'thorough': {
        'M': {
            'M.incr.find': 450000, 'M.incr.reparse': 150000, 'M.incr.reparse.find': 910000, 'M.incr.start': 6500,
            'M.incr.step': 70000},
        'C': {
            'incr-find:last-of-several-matching-files-paragraphs-under-one-short-name': 54000,
            'incr-find:none-matches': 170000, 'incr-find:one-paragraph-matches': 140000,
            'incr-find:resolves-to-files-paragraph-added-behind-license-paragraphs-of-a-files-less-document': 46000,
            'incr-find:resolves-to-files-paragraph-whose-short-name-a-license-paragraph-carries': 200000,
            'incr-find:several-paragraphs-match': 130000, 'incr:add-files/first-files-paragraph': 2600,
            'incr:add-files/first-files-paragraph-behind-license-paragraphs': 4900,
            'incr:add-files/same-copyright-and-short-name-as-earlier-files-paragraph': 6000,
            'incr:add-files/short-name-not-in-document': 11000,
            'incr:add-files/short-name-of-earlier-files-and-license-paragraphs': 12000,
            'incr:add-files/short-name-of-earlier-files-paragraph': 3300,
            'incr:add-files/short-name-of-earlier-license-paragraph': 7600,
            'incr:add-files/short-name-of-license-paragraph-added-before-any-files-paragraph': 7800,
            'incr:add-license/before-any-files-paragraph': 9100,
            'incr:add-license/before-any-files-paragraph/short-name-of-earlier-license-paragraph': 4100,
            'incr:add-license/identical-license-as-earlier-license-paragraph': 6700,
            'incr:add-license/short-name-not-in-document': 12000,
            'incr:add-license/short-name-of-earlier-files-and-license-paragraphs': 9600,
            'incr:add-license/short-name-of-earlier-files-paragraph': 6500,
            'incr:add-license/short-name-of-earlier-license-paragraph': 7100,
            'incr:find-on-document-without-files-paragraph': 65000,
            'incr:first-files-paragraph-added-to-license-only-document': 4900, 'incr:histories': 11000,
            'incr:reparse-strict': 77000, 'incr:reparse-strict=False': 77000, 'incr:start-empty': 5400,
            'incr:start-parsed': 6500, 'incr:start-parsed-with-shared-short-name': 3200,
            'incr:start-parsed-with-strict=False': 1600, 'op:incr-add-files': 34000, 'op:incr-add-license': 35000},
    },
}
for _t, _d in _R8_FLOORS.items():
    FLOORS[_t]['monitors'].update(_d['M'])
    FLOORS[_t]['counters'].update(_d['C'])
    if 'Q-LOWERED' in _d:
        FLOORS[_t]['monitors'].update(_d['Q-LOWERED']['M'])
        FLOORS[_t]['counters'].update(_d['Q-LOWERED']['C'])
        FLOORS[_t]['nontrivial'] = _d['Q-LOWERED']['nontrivial']

# >>> round-9 floors (generated from the measured evidence)
# Round-9 classes: BYTES documents with ONE line that is not valid UTF-8 ('enc:*', 'enc-find:*', 'enc-ctl-find:*', M.enc.* - the
# control M.enc.ctl.* and the document with the bad line M.enc.*) and documents quoting PGP armor lines on continuation lines
# ('pgp:*', 'pgp-find:*', M.pgp.*).  ~50% of the measured values (quick: minimum over seeds 0-3; thorough: seed 0); sub-classes
# whose floor would be below 15 are covered by their family counter only.  A run that never parses a document with an
# undecodable line at each position (same paragraph before / behind the Files field, earlier / later paragraph, header), never
# resolves a non-ASCII name through a non-ASCII pattern behind such a line, never parses a quoted BEGIN-without-END / BEGIN..END /
# lone END block in front of later Files paragraphs from str and from bytes, strict and non-strict, is INCONCLUSIVE, not held.
# 'LOWERED': the quick sizes of para / hist / doc / build / long were trimmed by 5..7% to pay for the classes; the floors those
# sizes feed were re-measured (same rule).
_R9_FLOORS = {'quick': {'C': {'enc-ctl-find:none-matches': 700,
                 'enc-ctl-find:one-paragraph-matches': 1100,
                 'enc-ctl-find:several-paragraphs-match': 400,
                 'enc-find:last-of-several-matching': 400,
                 'enc-find:non-ascii-name-resolves-to-a-paragraph': 1300,
                 'enc-find:non-ascii-name-resolves-to-paragraph-with-non-ascii-patterns': 1100,
                 'enc-find:none-matches': 700,
                 'enc-find:one-paragraph-matches': 1100,
                 'enc-find:resolves-to-paragraph-before-the-undecodable-line': 240,
                 'enc-find:resolves-to-paragraph-behind-the-undecodable-line': 450,
                 'enc-find:resolves-to-the-paragraph-that-holds-the-undecodable-line': 400,
                 'enc-find:several-paragraphs-match': 400,
                 'enc:1-files-paragraphs': 60,
                 'enc:2-files-paragraphs': 130,
                 'enc:3-files-paragraphs': 150,
                 'enc:bad-line-encoding-family:central-european': 23,
                 'enc:bad-line-encoding-family:cjk-multi-byte': 23,
                 'enc:bad-line-encoding-family:cyrillic': 29,
                 'enc:bad-line-encoding-family:western-single-byte': 270,
                 'enc:bad-line-encoding:cp1252': 83,
                 'enc:bad-line-encoding:iso-8859-15': 35,
                 'enc:bad-line-encoding:latin-1': 110,
                 'enc:bad-line-encoding:mac-roman': 15,
                 'enc:bad-line-field:Comment': 99,
                 'enc:bad-line-field:Copyright': 130,
                 'enc:bad-line-field:License': 84,
                 'enc:bad-line:continuation-line': 160,
                 'enc:bad-line:first-line-of-field': 180,
                 'enc:documents': 370,
                 'enc:matches-observed/control-document': 5000,
                 'enc:matches-observed/document-with-undecodable-line': 5000,
                 'enc:no-end-of-line-after-last-line': 40,
                 'enc:non-ascii-names': 1900,
                 'enc:non-ascii-patterns': 1000,
                 'enc:other-field-lines-with-valid-non-ascii-text': 340,
                 'enc:position:earlier-paragraph-than-non-ascii-files-field': 180,
                 'enc:position:header': 62,
                 'enc:position:later-paragraph-than-non-ascii-files-field': 140,
                 'enc:position:line-directly-after-files-field': 33,
                 'enc:position:line-directly-before-files-field': 61,
                 'enc:position:same-paragraph-after-files-field': 96,
                 'enc:position:same-paragraph-after-non-ascii-files-field': 88,
                 'enc:position:same-paragraph-before-files-field': 150,
                 'enc:position:same-paragraph-before-non-ascii-files-field': 140,
                 'enc:position:stand-alone-license-paragraph': 36,
                 'enc:source:bytes-buffered': 16,
                 'enc:source:bytes-gen': 45,
                 'enc:source:bytes-iter': 21,
                 'enc:source:bytes-list': 69,
                 'enc:source:bytes-list-noeol': 20,
                 'enc:source:bytes-tuple': 21,
                 'enc:source:bytesio': 65,
                 'enc:source:disk-rb': 69,
                 'enc:strict': 230,
                 'enc:strict=False': 120,
                 'pgp-find:last-of-several-matching-stands-behind-the-quote': 660,
                 'pgp-find:none-matches': 510,
                 'pgp-find:one-paragraph-matches': 800,
                 'pgp-find:resolves-to-paragraph-before-the-quote-although-files-paragraphs-follow': 300,
                 'pgp-find:resolves-to-paragraph-behind-the-quote': 1100,
                 'pgp-find:several-paragraphs-match': 720,
                 'pgp:2-files-paragraphs': 150,
                 'pgp:3-files-paragraphs': 150,
                 'pgp:4-files-paragraphs': 89,
                 'pgp:bytes-source': 220,
                 'pgp:bytes-source/strict': 130,
                 'pgp:bytes-source/strict=False': 86,
                 'pgp:documents': 410,
                 'pgp:documents-with-files-paragraphs-behind-the-quote': 400,
                 'pgp:files-paragraphs-behind-the-first-quote': 810,
                 'pgp:host-field:Comment': 390,
                 'pgp:host-field:Copyright': 97,
                 'pgp:host-field:Disclaimer': 51,
                 'pgp:host-field:License': 220,
                 'pgp:host-paragraph:Files': 430,
                 'pgp:host-paragraph:License': 120,
                 'pgp:host-paragraph:header': 200,
                 'pgp:marker-before-the-files-field-of-its-paragraph': 210,
                 'pgp:marker-is-last-line-of-its-paragraph': 120,
                 'pgp:marker-led-in-by:blank': 340,
                 'pgp:marker-led-in-by:blanks': 300,
                 'pgp:marker-led-in-by:field-line': 33,
                 'pgp:marker-led-in-by:tab': 100,
                 'pgp:marker:BEGIN': 520,
                 'pgp:marker:BEGIN PUBLIC KEY BLOCK': 58,
                 'pgp:marker:BEGIN SIGNATURE': 250,
                 'pgp:marker:BEGIN SIGNED MESSAGE': 200,
                 'pgp:marker:END': 270,
                 'pgp:marker:END MESSAGE': 19,
                 'pgp:marker:END PUBLIC KEY BLOCK': 53,
                 'pgp:marker:END SIGNATURE': 190,
                 'pgp:matches-observed/bytes-source': 3100,
                 'pgp:matches-observed/str-source': 2500,
                 'pgp:no-end-of-line-after-last-line': 46,
                 'pgp:quote:begin-and-end': 160,
                 'pgp:quote:begin-without-end': 270,
                 'pgp:quote:lone-end': 100,
                 'pgp:quote:signed-message-and-signature': 74,
                 'pgp:source:bytes-buffered': 19,
                 'pgp:source:bytes-gen': 15,
                 'pgp:source:bytes-iter': 20,
                 'pgp:source:bytes-list': 30,
                 'pgp:source:bytes-list-noeol': 15,
                 'pgp:source:bytes-tuple': 17,
                 'pgp:source:bytesio': 36,
                 'pgp:source:disk-rb': 16,
                 'pgp:source:disk-rb-raw': 16,
                 'pgp:source:disk-text': 19,
                 'pgp:source:str-gen': 16,
                 'pgp:source:str-iter': 20,
                 'pgp:source:str-list': 37,
                 'pgp:source:str-list-noeol': 18,
                 'pgp:source:str-tuple': 15,
                 'pgp:source:stringio': 40,
                 'pgp:str-source': 170,
                 'pgp:str-source/strict': 100,
                 'pgp:str-source/strict=False': 74,
                 'pgp:strict': 240,
                 'pgp:strict=False': 160},
           'LOWERED': {'C': {'build:find-on-document-without-files-paragraph': 6900,
                             'build:find-resolves-into-run-of-2+-adds': 6900,
                             'build:find-resolves-to-overlapping-paragraph-added-behind-sole-first-files-and-licenses': 2600,
                             'build:histories': 2100,
                             'find:several-paragraphs-match': 6100,
                             'long-find:last-of-several-matching-is-a-long-list': 720,
                             'long-find:resolves-to-paragraph-with-list-beyond-one-text-line': 2800,
                             'long-find:several-paragraphs-match': 1700,
                             'long:documents': 420,
                             'long:handed-over-as:list': 730,
                             'long:handed-over-as:tuple': 180,
                             'long:joined-length:200-399': 320,
                             'long:joined-length:400+': 200,
                             'long:joined-length:72-88': 70,
                             'long:joined-length:89-199': 180,
                             'long:lists-beyond-one-text-line': 730,
                             'long:matches-observed/re-assigned': 10000,
                             'long:name:hyphen-fragment': 4000,
                             'long:name:whole-single-long-pattern': 210,
                             'long:name:width-fragment': 390,
                             'long:oracle-cross-checked-with-distance-dp': 4400,
                             'long:paragraph-via:assign': 190,
                             'long:paragraph-via:assign-in-doc': 200,
                             'long:paragraph-via:create': 530,
                             'long:patterns-with-hyphen': 4300,
                             'long:patterns-with-wildcard': 1500,
                             'long:re-assigned-lists': 180,
                             'long:reparse-strict': 290,
                             'long:reparse-strict=False': 120,
                             'long:stale-distinguishing-name': 410,
                             'nontrivial:near-miss': 220000,
                             'op:build-add-files': 8200,
                             'op:build-add-license': 1600,
                             'op:find-build-reparsed': 52000,
                             'op:match-after-2+-unobserved-assignments': 1800,
                             'ws-build:documents': 250,
                             'ws-build:documents-parsed-with-strict=False': 83,
                             'ws-build:find-on-history-from-start-with-whitespace-only-separators': 6100},
                       'M': {'M.build.find': 55000,
                             'M.build.order': 8800,
                             'M.build.reparse': 8500,
                             'M.find': 32000,
                             'M.long.reparse': 420,
                             'M.long.reparse.find': 9600,
                             'M.match': 540000,
                             'M.stale': 13000,
                             'M.ws-build.order': 250}},
           'M': {'M.enc.ctl.files': 810,
                 'M.enc.ctl.find': 2200,
                 'M.enc.ctl.order': 370,
                 'M.enc.files': 810,
                 'M.enc.find': 2200,
                 'M.enc.order': 370,
                 'M.enc.same': 2200,
                 'M.pgp.files': 1100,
                 'M.pgp.find': 2100,
                 'M.pgp.order': 410}},
 'thorough': {'C': {'enc-ctl-find:none-matches': 20000,
                    'enc-ctl-find:one-paragraph-matches': 29000,
                    'enc-ctl-find:several-paragraphs-match': 12000,
                    'enc-find:last-of-several-matching': 12000,
                    'enc-find:non-ascii-name-resolves-to-a-paragraph': 38000,
                    'enc-find:non-ascii-name-resolves-to-paragraph-with-non-ascii-patterns': 32000,
                    'enc-find:none-matches': 20000,
                    'enc-find:one-paragraph-matches': 29000,
                    'enc-find:resolves-to-paragraph-before-the-undecodable-line': 7700,
                    'enc-find:resolves-to-paragraph-behind-the-undecodable-line': 14000,
                    'enc-find:resolves-to-the-paragraph-that-holds-the-undecodable-line': 9900,
                    'enc-find:several-paragraphs-match': 12000,
                    'enc:1-files-paragraphs': 1700,
                    'enc:2-files-paragraphs': 1700,
                    'enc:3-files-paragraphs': 3400,
                    'enc:4-files-paragraphs': 1700,
                    'enc:5-files-paragraphs': 1700,
                    'enc:bad-line-encoding-family:central-european': 880,
                    'enc:bad-line-encoding-family:cjk-multi-byte': 930,
                    'enc:bad-line-encoding-family:cyrillic': 870,
                    'enc:bad-line-encoding-family:western-single-byte': 7800,
                    'enc:bad-line-encoding:cp1250': 420,
                    'enc:bad-line-encoding:cp1251': 300,
                    'enc:bad-line-encoding:cp1252': 2400,
                    'enc:bad-line-encoding:cp437': 260,
                    'enc:bad-line-encoding:cp850': 330,
                    'enc:bad-line-encoding:euc-jp': 450,
                    'enc:bad-line-encoding:iso-8859-15': 1100,
                    'enc:bad-line-encoding:iso-8859-2': 450,
                    'enc:bad-line-encoding:iso-8859-5': 290,
                    'enc:bad-line-encoding:koi8-r': 280,
                    'enc:bad-line-encoding:latin-1': 3200,
                    'enc:bad-line-encoding:mac-roman': 480,
                    'enc:bad-line-encoding:shift_jis': 470,
                    'enc:bad-line-field:Comment': 2800,
                    'enc:bad-line-field:Copyright': 4200,
                    'enc:bad-line-field:Disclaimer': 250,
                    'enc:bad-line-field:License': 2500,
                    'enc:bad-line-field:Source': 270,
                    'enc:bad-line-field:Upstream-Contact': 280,
                    'enc:bad-line:continuation-line': 5000,
                    'enc:bad-line:first-line-of-field': 5400,
                    'enc:documents': 10000,
                    'enc:matches-observed/control-document': 180000,
                    'enc:matches-observed/document-with-undecodable-line': 180000,
                    'enc:no-end-of-line-after-last-line': 1200,
                    'enc:non-ascii-names': 54000,
                    'enc:non-ascii-patterns': 41000,
                    'enc:other-field-lines-with-valid-non-ascii-text': 10000,
                    'enc:position:earlier-paragraph-than-non-ascii-files-field': 6500,
                    'enc:position:header': 1800,
                    'enc:position:later-paragraph-than-non-ascii-files-field': 5100,
                    'enc:position:line-directly-after-files-field': 1100,
                    'enc:position:line-directly-before-files-field': 1900,
                    'enc:position:same-paragraph-after-files-field': 3100,
                    'enc:position:same-paragraph-after-non-ascii-files-field': 2900,
                    'enc:position:same-paragraph-before-files-field': 4400,
                    'enc:position:same-paragraph-before-non-ascii-files-field': 4100,
                    'enc:position:stand-alone-license-paragraph': 1100,
                    'enc:source:bytes-buffered': 660,
                    'enc:source:bytes-gen': 1300,
                    'enc:source:bytes-iter': 650,
                    'enc:source:bytes-list': 1900,
                    'enc:source:bytes-list-noeol': 680,
                    'enc:source:bytes-tuple': 650,
                    'enc:source:bytesio': 1900,
                    'enc:source:disk-rb': 1900,
                    'enc:source:disk-rb-raw': 640,
                    'enc:strict': 6800,
                    'enc:strict=False': 3700,
                    'pgp-find:last-of-several-matching-stands-behind-the-quote': 22000,
                    'pgp-find:none-matches': 13000,
                    'pgp-find:one-paragraph-matches': 21000,
                    'pgp-find:resolves-to-paragraph-before-the-quote-although-files-paragraphs-follow': 9900,
                    'pgp-find:resolves-to-paragraph-behind-the-quote': 36000,
                    'pgp-find:several-paragraphs-match': 25000,
                    'pgp:2-files-paragraphs': 2000,
                    'pgp:3-files-paragraphs': 4000,
                    'pgp:4-files-paragraphs': 2000,
                    'pgp:5-files-paragraphs': 1900,
                    'pgp:6-files-paragraphs': 1900,
                    'pgp:bytes-source': 6600,
                    'pgp:bytes-source/strict': 3900,
                    'pgp:bytes-source/strict=False': 2700,
                    'pgp:documents': 12000,
                    'pgp:documents-with-files-paragraphs-behind-the-quote': 11000,
                    'pgp:files-paragraphs-behind-the-first-quote': 31000,
                    'pgp:host-field:Comment': 10000,
                    'pgp:host-field:Copyright': 2800,
                    'pgp:host-field:Disclaimer': 1700,
                    'pgp:host-field:License': 6300,
                    'pgp:host-paragraph:Files': 11000,
                    'pgp:host-paragraph:License': 3700,
                    'pgp:host-paragraph:header': 5200,
                    'pgp:marker-before-the-files-field-of-its-paragraph': 5700,
                    'pgp:marker-is-last-line-of-its-paragraph': 2900,
                    'pgp:marker-led-in-by:blank': 8700,
                    'pgp:marker-led-in-by:blanks': 8600,
                    'pgp:marker-led-in-by:field-line': 590,
                    'pgp:marker-led-in-by:tab': 2900,
                    'pgp:marker:BEGIN': 13000,
                    'pgp:marker:BEGIN PUBLIC KEY BLOCK': 1800,
                    'pgp:marker:BEGIN SIGNATURE': 6600,
                    'pgp:marker:BEGIN SIGNED MESSAGE': 4800,
                    'pgp:marker:END': 7600,
                    'pgp:marker:END MESSAGE': 680,
                    'pgp:marker:END PUBLIC KEY BLOCK': 1600,
                    'pgp:marker:END SIGNATURE': 5300,
                    'pgp:matches-observed/bytes-source': 120000,
                    'pgp:matches-observed/str-source': 100000,
                    'pgp:no-end-of-line-after-last-line': 1400,
                    'pgp:quote:begin-and-end': 4700,
                    'pgp:quote:begin-without-end': 6600,
                    'pgp:quote:lone-end': 2800,
                    'pgp:quote:signed-message-and-signature': 1900,
                    'pgp:source:bytes-buffered': 580,
                    'pgp:source:bytes-gen': 610,
                    'pgp:source:bytes-iter': 600,
                    'pgp:source:bytes-list': 1200,
                    'pgp:source:bytes-list-noeol': 610,
                    'pgp:source:bytes-tuple': 640,
                    'pgp:source:bytesio': 1200,
                    'pgp:source:disk-rb': 600,
                    'pgp:source:disk-rb-raw': 610,
                    'pgp:source:disk-text': 600,
                    'pgp:source:str-gen': 570,
                    'pgp:source:str-iter': 580,
                    'pgp:source:str-list': 1200,
                    'pgp:source:str-list-noeol': 590,
                    'pgp:source:str-tuple': 580,
                    'pgp:source:stringio': 1100,
                    'pgp:str-source': 5300,
                    'pgp:str-source/strict': 3100,
                    'pgp:str-source/strict=False': 2100,
                    'pgp:strict': 7100,
                    'pgp:strict=False': 4800},
              'LOWERED': {'C': {'lead-find:last-of-several-matching-through-pattern-starting-with-dot-or-slash': 15000,
                                'lead-find:resolves-through-pattern-starting-with-dot-or-slash': 51000,
                                'lead-find:several-paragraphs-match': 47000,
                                'lead:pattern-starts-with:..': 2100,
                                'lead:pattern-starts-with:...': 3400},
                          'M': {}},
              'M': {'M.enc.ctl.files': 31000,
                    'M.enc.ctl.find': 63000,
                    'M.enc.ctl.order': 10000,
                    'M.enc.files': 31000,
                    'M.enc.find': 63000,
                    'M.enc.order': 10000,
                    'M.enc.same': 63000,
                    'M.pgp.files': 45000,
                    'M.pgp.find': 60000,
                    'M.pgp.order': 12000}}}
for _t, _d in _R9_FLOORS.items():
    FLOORS[_t]['monitors'].update(_d['M'])
    FLOORS[_t]['counters'].update(_d['C'])
    if 'LOWERED' in _d:
        FLOORS[_t]['monitors'].update(_d['LOWERED']['M'])
        FLOORS[_t]['counters'].update(_d['LOWERED']['C'])
        if 'nontrivial' in _d['LOWERED']:
            FLOORS[_t]['nontrivial'] = _d['LOWERED']['nontrivial']
# <<< round-9 floors

# >>> round-11 floors
# Round-11 class: parsed documents whose Files continuation lines are led in by a Unicode blank other than space / tab ('ubl:*',
# 'ubl-find:*', M.ubl.*).  quick: about half of the minimum over seeds 0-3 on the unchanged tree; thorough: about half of seed 0.
# A run that never parses such a document, never sees one of the 16 characters / the lead shapes, never asks for a name that only a
# pattern on such a line covers, or never builds the mapping form is INCONCLUSIVE, not held.
_R11_FLOORS = {
 'quick': {'C': {'ubl-find:last-match-only-through-led-line-shadows-earlier-paragraph': 550,
                 'ubl-find:led-field-matches-but-later-paragraph-wins': 220,
                 'ubl-find:name-covered-only-by-patterns-on-led-lines': 1300,
                 'ubl-find:resolves-to-led-field-through-other-pattern': 840,
                 'ubl-find:several-paragraphs-match': 1200,
                 'ubl:bytes-source': 290,
                 'ubl:bytes-source/strict': 180,
                 'ubl:bytes-source/strict=False': 100,
                 'ubl:documents': 560,
                 'ubl:documents-with-files-paragraphs-behind-the-led-field': 150,
                 'ubl:field:all-continuation-lines-led': 530,
                 'ubl:field:led-and-plain-continuation-lines-mixed': 370,
                 'ubl:files-fields-with-led-lines': 930,
                 'ubl:first-character:U+00A0': 210,
                 'ubl:first-character:U+1680': 54,
                 'ubl:first-character:U+2000': 47,
                 'ubl:first-character:U+2001': 42,
                 'ubl:first-character:U+2002': 44,
                 'ubl:first-character:U+2003': 71,
                 'ubl:first-character:U+2004': 47,
                 'ubl:first-character:U+2005': 41,
                 'ubl:first-character:U+2006': 43,
                 'ubl:first-character:U+2007': 52,
                 'ubl:first-character:U+2008': 50,
                 'ubl:first-character:U+2009': 48,
                 'ubl:first-character:U+200A': 53,
                 'ubl:first-character:U+202F': 75,
                 'ubl:first-character:U+205F': 49,
                 'ubl:first-character:U+3000': 80,
                 'ubl:first-character:blank': 210,
                 'ubl:first-character:tab': 130,
                 'ubl:lead-shape:blank-then-unicode': 210,
                 'ubl:lead-shape:single-unicode-blank': 430,
                 'ubl:lead-shape:tab-then-unicode': 130,
                 'ubl:lead-shape:unicode-then-blank': 210,
                 'ubl:lead-shape:unicode-then-tab': 120,
                 'ubl:lead-shape:unicode-then-unicode': 270,
                 'ubl:led-line-followed-by-led-line': 320,
                 'ubl:led-line-followed-by-plain-continuation-line': 300,
                 'ubl:led-line-is-first-continuation-line': 450,
                 'ubl:led-line-is-first-continuation-line/field-line-empty': 220,
                 'ubl:led-line-is-last-line-of-the-field': 470,
                 'ubl:led-line-is-last-line-of-the-field/and-of-the-paragraph': 290,
                 'ubl:led-lines': 1400,
                 'ubl:line-starts-with-plain-blank-or-tab': 350,
                 'ubl:line-starts-with-unicode-blank': 1000,
                 'ubl:map:matches-observed': 6600,
                 'ubl:map:paragraphs': 930,
                 'ubl:matches-observed/bytes-source': 5000,
                 'ubl:matches-observed/str-source': 4600,
                 'ubl:no-end-of-line-after-last-line': 59,
                 'ubl:patterns-on-led-lines': 1500,
                 'ubl:source:bytes-buffered': 15,
                 'ubl:source:bytes-gen': 12,
                 'ubl:source:bytes-iter': 11,
                 'ubl:source:bytes-list': 80,
                 'ubl:source:bytes-list-noeol': 12,
                 'ubl:source:bytes-tuple': 12,
                 'ubl:source:bytes-whole': 13,
                 'ubl:source:bytesio': 83,
                 'ubl:source:disk-rb': 14,
                 'ubl:source:disk-rb-raw': 11,
                 'ubl:source:disk-text': 14,
                 'ubl:source:str-gen': 16,
                 'ubl:source:str-iter': 13,
                 'ubl:source:str-list': 78,
                 'ubl:source:str-list-noeol': 13,
                 'ubl:source:str-tuple': 14,
                 'ubl:source:str-whole': 11,
                 'ubl:source:stringio': 86,
                 'ubl:str-source': 250,
                 'ubl:str-source/strict': 160,
                 'ubl:str-source/strict=False': 91,
                 'ubl:strict': 340,
                 'ubl:strict=False': 200,
                 'ubl:unicode-blank:U+00A0': 440,
                 'ubl:unicode-blank:U+1680': 76,
                 'ubl:unicode-blank:U+2000': 74,
                 'ubl:unicode-blank:U+2001': 66,
                 'ubl:unicode-blank:U+2002': 70,
                 'ubl:unicode-blank:U+2003': 97,
                 'ubl:unicode-blank:U+2004': 66,
                 'ubl:unicode-blank:U+2005': 64,
                 'ubl:unicode-blank:U+2006': 66,
                 'ubl:unicode-blank:U+2007': 71,
                 'ubl:unicode-blank:U+2008': 76,
                 'ubl:unicode-blank:U+2009': 69,
                 'ubl:unicode-blank:U+200A': 70,
                 'ubl:unicode-blank:U+202F': 100,
                 'ubl:unicode-blank:U+205F': 71,
                 'ubl:unicode-blank:U+3000': 100},
           'M': {'M.ubl.ctl.order': 560,
                 'M.ubl.files': 1300,
                 'M.ubl.find': 3800,
                 'M.ubl.map': 930,
                 'M.ubl.order': 560}},
 'thorough': {'C': {'ubl-find:last-match-only-through-led-line-shadows-earlier-paragraph': 13000,
                    'ubl-find:led-field-matches-but-later-paragraph-wins': 9300,
                    'ubl-find:name-covered-only-by-patterns-on-led-lines': 27000,
                    'ubl-find:resolves-to-led-field-through-other-pattern': 17000,
                    'ubl-find:several-paragraphs-match': 34000,
                    'ubl:bytes-source': 5500,
                    'ubl:bytes-source/strict': 3500,
                    'ubl:bytes-source/strict=False': 1900,
                    'ubl:documents': 10000,
                    'ubl:documents-with-files-paragraphs-behind-the-led-field': 3400,
                    'ubl:field:all-continuation-lines-led': 11000,
                    'ubl:field:led-and-plain-continuation-lines-mixed': 9600,
                    'ubl:files-fields-with-led-lines': 21000,
                    'ubl:first-character:U+00A0': 5800,
                    'ubl:first-character:U+1680': 1100,
                    'ubl:first-character:U+2000': 1100,
                    'ubl:first-character:U+2001': 1100,
                    'ubl:first-character:U+2002': 1100,
                    'ubl:first-character:U+2003': 2200,
                    'ubl:first-character:U+2004': 1100,
                    'ubl:first-character:U+2005': 1100,
                    'ubl:first-character:U+2006': 1100,
                    'ubl:first-character:U+2007': 1100,
                    'ubl:first-character:U+2008': 1100,
                    'ubl:first-character:U+2009': 1100,
                    'ubl:first-character:U+200A': 1100,
                    'ubl:first-character:U+202F': 2300,
                    'ubl:first-character:U+205F': 1100,
                    'ubl:first-character:U+3000': 2300,
                    'ubl:first-character:blank': 4900,
                    'ubl:first-character:tab': 2500,
                    'ubl:lead-shape:blank-then-unicode': 4900,
                    'ubl:lead-shape:single-unicode-blank': 14000,
                    'ubl:lead-shape:tab-then-unicode': 2500,
                    'ubl:lead-shape:unicode-then-blank': 4800,
                    'ubl:lead-shape:unicode-then-tab': 2500,
                    'ubl:lead-shape:unicode-then-unicode': 4900,
                    'ubl:led-line-followed-by-led-line': 8700,
                    'ubl:led-line-followed-by-plain-continuation-line': 7600,
                    'ubl:led-line-is-first-continuation-line': 10000,
                    'ubl:led-line-is-first-continuation-line/field-line-empty': 5500,
                    'ubl:led-line-is-last-line-of-the-field': 10000,
                    'ubl:led-line-is-last-line-of-the-field/and-of-the-paragraph': 7000,
                    'ubl:led-lines': 33000,
                    'ubl:line-starts-with-plain-blank-or-tab': 7400,
                    'ubl:line-starts-with-unicode-blank': 26000,
                    'ubl:map:matches-observed': 160000,
                    'ubl:map:paragraphs': 21000,
                    'ubl:matches-observed/bytes-source': 140000,
                    'ubl:matches-observed/str-source': 120000,
                    'ubl:no-end-of-line-after-last-line': 1100,
                    'ubl:patterns-on-led-lines': 36000,
                    'ubl:source:bytes-buffered': 450,
                    'ubl:source:bytes-gen': 440,
                    'ubl:source:bytes-iter': 440,
                    'ubl:source:bytes-list': 970,
                    'ubl:source:bytes-list-noeol': 450,
                    'ubl:source:bytes-tuple': 440,
                    'ubl:source:bytes-whole': 460,
                    'ubl:source:bytesio': 920,
                    'ubl:source:disk-rb': 460,
                    'ubl:source:disk-rb-raw': 440,
                    'ubl:source:disk-text': 460,
                    'ubl:source:str-gen': 450,
                    'ubl:source:str-iter': 450,
                    'ubl:source:str-list': 980,
                    'ubl:source:str-list-noeol': 460,
                    'ubl:source:str-tuple': 460,
                    'ubl:source:str-whole': 460,
                    'ubl:source:stringio': 960,
                    'ubl:str-source': 4700,
                    'ubl:str-source/strict': 3000,
                    'ubl:str-source/strict=False': 1600,
                    'ubl:strict': 6600,
                    'ubl:strict=False': 3500,
                    'ubl:unicode-blank:U+00A0': 11000,
                    'ubl:unicode-blank:U+1680': 1400,
                    'ubl:unicode-blank:U+2000': 1500,
                    'ubl:unicode-blank:U+2001': 1500,
                    'ubl:unicode-blank:U+2002': 1500,
                    'ubl:unicode-blank:U+2003': 2800,
                    'ubl:unicode-blank:U+2004': 1500,
                    'ubl:unicode-blank:U+2005': 1500,
                    'ubl:unicode-blank:U+2006': 1500,
                    'ubl:unicode-blank:U+2007': 1500,
                    'ubl:unicode-blank:U+2008': 1500,
                    'ubl:unicode-blank:U+2009': 1500,
                    'ubl:unicode-blank:U+200A': 1500,
                    'ubl:unicode-blank:U+202F': 2900,
                    'ubl:unicode-blank:U+205F': 1500,
                    'ubl:unicode-blank:U+3000': 2900},
              'M': {'M.ubl.ctl.order': 10000,
                    'M.ubl.files': 35000,
                    'M.ubl.find': 75000,
                    'M.ubl.map': 21000,
                    'M.ubl.order': 10000}}}
for _t, _d in _R11_FLOORS.items():
    FLOORS[_t]['monitors'].update(_d['M'])
    FLOORS[_t]['counters'].update(_d['C'])
# <<< round-11 floors

LEVEL_TEXT = ('Runtime monitoring: seeded hostile pattern lists and near-miss names (literal expansions of the patterns with '
              '0..2 single-character edits), bounded-exhaustive sweeps of small pattern/name spaces, parsed and built '
              'documents with several Files paragraphs (also with whitespace-only separators, with comment lines and handed over '
              'as bytes, with one line that is not valid UTF-8, with quoted PGP armor lines), paragraphs built with long lists and with patterns that start with "." or "/", and histories of `files` '
              're-assignments, and documents built add by add with shared license short names are pushed through the live '
              'FilesParagraph.matches / Copyright.find_files_paragraph; every answer is compared with an independent glob '
              'matcher (whole-name, * crosses "/", ? exactly one character, only \\\\ \\* \\? escapes) and with the "last '
              'matching paragraph or None" rule.  Held-on-observed, not a proof: reach is the generated set.')
LEVEL_NOTE = ('Trusted: CPython, vp.models.globmatch (two algorithms cross-checked on every evaluation), the generators. '
              'Empty globs and empty pattern lists are outside the oracle.  Patterns containing whitespace can only be '
              'observed through a subclass overriding the `files` property.')
TECHNIQUE = ('runtime monitoring: boundary oracle M (independent reference glob matcher + last-match rule) on '
             'FilesParagraph.matches and Copyright.find_files_paragraph over seeded near-miss workloads, documents and '
             're-assignment histories; M.match / M.find are the deciding monitors')
