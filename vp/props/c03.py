"""C03 - version comparison agrees with dpkg, is a consistent total preorder,
and equal versions hash equal.

Deciding monitor M: boundary oracle = independent port of dpkg's verrevcmp
(vp.models.dpkgver) evaluated on ALL ordered pairs of a generated pool, all six
rich comparison operators + version_compare + mixed (Version vs str) operands;
antisymmetry; transitivity on sampled triples and on every window of
neighbours in the reference order; hash agreement whenever the oracle says
equal.  The oracle itself is cross-checked against `dpkg --compare-versions`
when dpkg is installed (a disagreement there is *inconclusive*: my model would
be wrong, not the repository).
"""
import functools
import itertools
import shutil
import subprocess

from ..models import dpkgver

PROP = 'C03'
LEVEL = 'exploration'
RULE = ('Pool of valid version strings from structured generators (leading zeros, ~ chains, ~ at end, '
        'letters vs +/./-, digit/non-digit misalignment, epoch 0/absent/00, revision absent/0; plus ~90 versions with digit runs of '
        '9..31 digits, with and without leading zeros, in upstream / revision / epoch, and 6 with runs of 4300..5000 digits); every ordered '
        'pair of the pool is compared with all operators; plus objects that were compared and hashed and then given another '
        'pool value (full_version or component assignments) and compared again; operands obtained by copy / deepcopy / pickle / Version(version) / '
        'Version(str subclass), str-subclass operands, and the objects inside sorted / min / max / set / dict; every other shard runs with the '
        'interpreter\'s int <-> str conversion limit lowered to 640 digits (pool holds runs of 640..2000 digits).  A pair is non-trivial when the two strings differ '
        'and share a common prefix of >= 1 character (decided inside the algorithm, not on the first character).')
ASSUMPTIONS = ['vp.models.dpkgver is a faithful port of dpkg lib/dpkg/version.c (cross-checked against the dpkg binary in the thorough tier)',
               'Version is NativeVersion (python-apt absent); the class exercised is recorded in coverage.version_class',
               'domain: strings dpkg accepts - non-empty upstream starting with a digit, no empty revision, ASCII-digit epoch']
ANCHORS = ['debian.debian_support:NativeVersion._compare',
           'debian.debian_support:NativeVersion._version_cmp_part',
           'debian.debian_support:NativeVersion._version_cmp_string',
           'debian.debian_support:NativeVersion._order',
           'debian.debian_support:BaseVersion.__hash__',
           'debian.debian_support:version_compare']
MUST_REACH = ['debian.debian_support:NativeVersion._compare', 'debian.debian_support:version_compare',
              'debian.debian_support:BaseVersion.__hash__']
FLOORS = {'quick': {'nontrivial': 20000, 'monitors': {'M.pair': 100000, 'M.hash': 200, 'M.triple': 20000},
                    'counters': {'pair:long-digit-run': 25000, 'pair:long-digit-run-both': 1400, 'rebind:value-replaced': 1500, 'rebind:component-assigned': 4500, 'rebind:boundary-moved': 800, 'pair:lowered-int-limit': 100000, 'pair:lowered-int-limit:both-runs-beyond-it': 150, 'derived:copy': 100, 'derived:deepcopy': 100, 'derived:pickle': 100, 'derived:ctor-from-str-subclass': 100, 'derived:copy-of-rebound': 100}},
          'thorough': {'nontrivial': 500000, 'monitors': {'M.pair': 4000000, 'M.hash': 1800, 'M.triple': 500000},
                       'counters': {'pair:long-digit-run': 150000, 'pair:long-digit-run-both': 1400, 'rebind:value-replaced': 60000, 'rebind:component-assigned': 60000, 'rebind:boundary-moved': 6000, 'pair:lowered-int-limit': 1500000, 'pair:lowered-int-limit:both-runs-beyond-it': 60, 'derived:copy': 6000, 'derived:deepcopy': 6000, 'derived:pickle': 6000, 'derived:ctor-from-str-subclass': 6000, 'derived:copy-of-rebound': 6000}}}

POOL = {'quick': 400, 'thorough': 2800}
TRIPLES = {'quick': 120000, 'thorough': 3000000}


def sgn(x):
    return (x > 0) - (x < 0)


def gen_component(r, revision=False):
    """One upstream or revision component, biased towards the hard cases."""
    atoms = ['0', '1', '2', '9', '00', '01', '10', '09', '1.0', '1.00', 'a', 'b', 'z', 'A', 'Z', 'ab',
             '~', '~~', '~a', '~1', '+', '.', '+b1', '.0', '.a', 'rc', 'beta', '~rc1', '+dfsg', '+really']
    if not revision:
        atoms += ['-', '-1', '-a', '-~']
    n = r.choice([1, 1, 2, 2, 3, 3, 4, 5])
    s = ''.join(r.choice(atoms) for _ in range(n))
    if not revision:
        if not s[0].isdigit():
            s = r.choice('0129') + s
    return s


def gen_version(r):
    up = gen_component(r)
    while up.endswith('-'):
        up = up[:-1] or '1'
    epoch = None
    k = r.random()
    if k < 0.33:
        epoch = r.choice(['0', '1', '00', '2', '01', '10', '1', '0'])
        if r.random() < 0.4:
            # colons inside the upstream version: legal only together with an epoch, and then ordinary
            # (non-letter) characters of the comparison
            for _ in range(r.choice([1, 1, 2])):
                pos = r.randint(1, len(up))
                up = up[:pos] + ':' + up[pos:]
    s = up
    k = r.random()
    if k < 0.35:
        s = s + '-' + gen_component(r, revision=True)
    elif k < 0.45:
        s = s + '-0'
    if epoch is not None:
        s = epoch + ':' + s
    return s


def long_digit_runs():
    """Digit runs around the lengths where a machine word / a float / a fixed-width shortcut would give out (9, 10, 18,
    19, 20, 30 digits), with and without leading zeros, in the upstream part, the revision and the epoch.  dpkg compares
    digit runs as numbers of any length (leading zeros skipped, then by length, then by first difference)."""
    out = []
    for k in (0, 1, 8, 9, 10, 17, 18, 19, 20, 30):
        for tail in ('5', '6', '15'):
            out.append('1.' + '0' * k + tail)
            out.append('1-' + '0' * k + tail)
    for k in (9, 10, 18, 19, 20, 30):
        out.append('1.' + '9' * k)
        out.append('1.1' + '0' * k)
        out.append('1.1' + '0' * (k - 1) + '1')
        out.append('1-' + '9' * k)
    for k in (8, 17, 18, 19, 25):
        out.append('0' * k + '1:1')
        out.append('0' * k + ':1')
    # beyond the interpreter's own limit for str <-> int conversion (4300 digits by default since 3.11)
    # around a LOWERED limit (sys.set_int_max_str_digits(640) / PYTHONINTMAXSTRDIGITS: every other shard runs with it)
    out += ['1.' + '3' * 640, '1.' + '3' * 641, '1.00' + '3' * 641, '1-' + '3' * 700, '3:1.' + '4' * 1000 + '-1', '1.' + '4' * 999 + '5-1',
            '1.' + '5' * 2000, '1.' + '5' * 1999 + '6']
    out += ['1.' + '7' * 4300, '1.' + '7' * 4301, '1.000' + '7' * 4301, '1.' + '7' * 4300 + '8', '2:1-' + '9' * 5000, '1-' + '0' * 4400 + '5']
    return out


def is_long_run(v):
    import re
    return any(len(m) > 15 for m in re.findall(r'[0-9]+', v))


def build_pool(seed, n):
    import random
    r = random.Random('C03-pool/%d' % seed)
    pool = set(['0', '00', '0:0', '0-0', '1', '0:1', '1-0', '1.0', '1.00', '1.0-0', '0:1.0', '1.0~', '1.0~~',
                '1.0~a', '1.0a', '1.0+', '1.0.', '1.0-', '1.a', '1a', '1A', '1z', '1+', '1.', '1~', '1-1', '1-~1',
                '1-a', '1-1.', '1-1~', '1.0-1-1', '1-1-1', '2:1', '1:2', '10', '9', '010', '1.10', '1.9', '1.09',
                '1:1:2', '1:1a2', '1:1+2', '1:1.2', '1:1-2', '1:1~2', '01:1:', '1:1:', '1:1:a', '1:1::', '0:1:1-1'])
    pool |= set(long_digit_runs())
    pool = set(v for v in pool if dpkgver.classify(v) == 'accept')
    n += len(pool)
    while len(pool) < n:
        v = gen_version(r)
        if dpkgver.classify(v) == 'accept' and len(v) <= 24:
            pool.add(v)
    return sorted(pool)


DERIVED_HOWS = ['copy', 'deepcopy', 'pickle', 'pickle-proto0', 'ctor-from-version', 'ctor-from-str-subclass', 'ctor-from-str-of', 'copy-after-hash',
                'deepcopy-after-compare', 'copy-of-rebound', 'class-of']


class _Str(str):
    """A caller's str subclass (no overrides): the same text must mean the same version."""


def derive(ds, s, how):
    """A Version object holding the value s, obtained otherwise than by Version(s) of a plain str."""
    import copy
    import pickle
    v = ds.Version(s)
    if how == 'copy':
        return copy.copy(v)
    if how == 'deepcopy':
        return copy.deepcopy(v)
    if how == 'pickle':
        return pickle.loads(pickle.dumps(v))
    if how == 'pickle-proto0':
        return pickle.loads(pickle.dumps(v, 0))
    if how == 'ctor-from-version':
        return ds.Version(v)
    if how == 'ctor-from-str-subclass':
        return ds.Version(_Str(s))
    if how == 'ctor-from-str-of':
        return ds.Version(str(v))
    if how == 'copy-after-hash':
        hash(v)
        v == ds.Version('0')
        return copy.copy(v)
    if how == 'deepcopy-after-compare':
        v < ds.Version('1~')
        v > ds.Version('99:9')
        return copy.deepcopy(v)
    if how == 'copy-of-rebound':
        # the original held another value before; the copy is taken of the object as it is NOW
        w = ds.Version('7:7.7-7')
        hash(w)
        w < v
        w.full_version = s
        return copy.deepcopy(w)
    if how == 'class-of':
        return type(v)(s)
    raise AssertionError(how)


def nontrivial_pair(a, b):
    return a != b and a[0] == b[0]


LOWERED_INT_LIMIT = 640


def setup(ctx):
    import sys
    from debian import debian_support as ds
    if ctx.shard % 2 == 1:
        # ambient process state: the interpreter's str <-> int conversion limit is the caller's to lower
        sys.set_int_max_str_digits(LOWERED_INT_LIMIT)
    ctx.extra['int_max_str_digits_of_the_shards'] = {'limit=%d' % sys.get_int_max_str_digits()}
    ctx.extra['version_class'] = ds.Version.__mro__[1].__name__
    ctx.extra['dpkg_crosscheck'] = {'pairs': 0, 'disagreements': 0}


def cases(ctx):
    pool = build_pool(ctx.seed, POOL[ctx.tier])
    for i, a in enumerate(pool):
        if ctx.mine(i):
            yield {'kind': 'row', 'a': a, 'bs': pool}
    # transitivity: neighbours in reference order (equivalence classes + their neighbours)
    ordered = sorted(pool, key=functools.cmp_to_key(dpkgver.compare))
    w = 5
    for i in range(0, len(ordered) - w + 1):
        if ctx.mine(i):
            yield {'kind': 'window', 'vs': ordered[i:i + w]}
    # objects that have already been compared / hashed and are then given another value (full_version or a component):
    # the relation is about the value the object holds NOW (nothing remembered from the earlier value)
    r = ctx.rng('rebind')
    for i in range(ctx.size(1600, 60000)):
        seq = [r.choice(pool) for _ in range(r.randint(2, 4))]
        moves = []
        for _ in range(8):
            attr = r.choice(['epoch', 'upstream_version', 'debian_revision', 'debian_revision', 'epoch'])
            if attr == 'epoch':
                val = r.choice([None, None, '0', '1', '2'])
            elif attr == 'debian_revision':
                val = r.choice([None, None, '1', '0', '2-3', '1~'])
            else:
                val = r.choice(['1.0', '1.0-2', '2:7', '1-2-3', '0', '1:0-1'])
            moves.append([attr, val])
        yield {'kind': 'rebind', 'seq': seq, 'bs': [r.choice(pool) for _ in range(4)] + r.sample(seq, 2), 'moves': moves}
    # operands that are not fresh Version(str) objects: copies (copy / deepcopy / pickle / Version(version)), objects built
    # from str subclasses, str-subclass operands, objects that sit in sorted() / min / max / set / dict: same relation
    r = ctx.rng('derived')
    for i in range(ctx.size(500, 40000)):
        vs = [r.choice(pool) for _ in range(r.randint(3, 6))]
        yield {'kind': 'derived', 'vs': vs, 'how': [r.choice(DERIVED_HOWS) for _ in vs], 'touch': r.randint(0, 3)}
    r = ctx.rng('triples')
    for i in range(ctx.size(TRIPLES['quick'], TRIPLES['thorough']) // 50):
        yield {'kind': 'triples', 'vs': [r.choice(pool) for _ in range(52)]}
    if ctx.tier == 'thorough' and ctx.shard == 0 and shutil.which('dpkg'):
        r = ctx.rng('dpkg')
        yield {'kind': 'dpkg', 'pairs': [[r.choice(pool), r.choice(pool)] for _ in range(400)]}


def check_pair(ctx, a, b, va, vb):
    from debian import debian_support as ds
    ref = dpkgver.compare(a, b)
    ctx.mon('M.pair')
    if nontrivial_pair(a, b):
        ctx.nontrivial(case={'a': a, 'b': b})
    small = {'kind': 'pair', 'a': a, 'b': b}
    import sys
    if sys.get_int_max_str_digits() != 4300:
        small['int_limit'] = sys.get_int_max_str_digits()
        ctx.count('pair:lowered-int-limit')
        if max(len(a), len(b)) > LOWERED_INT_LIMIT and min(len(a), len(b)) > LOWERED_INT_LIMIT:
            ctx.count('pair:lowered-int-limit:both-runs-beyond-it')
    if is_long_run(a) or is_long_run(b):
        ctx.count('pair:long-digit-run')
        if is_long_run(a) and is_long_run(b):
            ctx.count('pair:long-digit-run-both')
    try:
        got = ds.version_compare(a, b)
    except ValueError as e:
        if 'Exceeds the limit' in str(e):
            ctx.violation('comparison-raises-on-digit-run-beyond-the-int-conversion-limit',
                          'version_compare(%r..., %r...) raised %r; dpkg compares digit runs of any length' % (a[:40], b[:40], e), small)
            return
        raise
    if sgn(got) != ref:
        ctx.violation('order-disagrees-with-dpkg', 'version_compare(%r,%r)=%r, dpkg order says %d' % (a, b, got, ref), small)
        return
    ops = (va < vb, va <= vb, va == vb, va != vb, va >= vb, va > vb)
    want = (ref < 0, ref <= 0, ref == 0, ref != 0, ref >= 0, ref > 0)
    if ops != want:
        ctx.violation('operators-inconsistent', '%r vs %r: (<,<=,==,!=,>=,>)=%r want %r' % (a, b, ops, want), small)
        return
    # mixed operands: Version against a plain string
    mixed = (va < b, va == b, va > b)
    if mixed != (ref < 0, ref == 0, ref > 0):
        ctx.violation('operators-inconsistent-mixed-operand', '%r vs str %r: %r, ref %d' % (a, b, mixed, ref), small)
        return
    back = ds.version_compare(b, a)
    if sgn(back) != -sgn(got):
        ctx.violation('antisymmetry', 'cmp(%r,%r)=%r but cmp(b,a)=%r' % (a, b, got, back), small)
    if ref == 0:
        ctx.mon('M.hash')
        if hash(va) != hash(vb):
            ctx.violation('equal-versions-hash-differently', '%r == %r but hashes differ' % (a, b), small)
        elif len({va, vb}) != 1:
            ctx.violation('equal-versions-distinct-in-set', '%r == %r but a set keeps both' % (a, b), small)


def check_triple(ctx, a, b, c):
    from debian import debian_support as ds
    ctx.mon('M.triple')
    ab, bc, ac = ds.version_compare(a, b), ds.version_compare(b, c), ds.version_compare(a, c)
    if ab <= 0 and bc <= 0 and not ac <= 0:
        ctx.violation('transitivity', '%r <= %r <= %r but cmp(a,c)=%d' % (a, b, c, ac), {'kind': 'triples', 'vs': [a, b, c]})
    if ab == 0 and bc == 0 and ac != 0:
        ctx.violation('transitivity-of-equality', '%r == %r == %r but cmp(a,c)=%d' % (a, b, c, ac), {'kind': 'triples', 'vs': [a, b, c]})
    if ab == 0 and sgn(bc) != sgn(ac):
        ctx.violation('equal-versions-order-differently', '%r == %r but differ against %r' % (a, b, c), {'kind': 'triples', 'vs': [a, b, c]})


def run_case(ctx, case):
    from debian import debian_support as ds
    kind = case['kind']
    if case.get('int_limit') is not None:
        import sys
        sys.set_int_max_str_digits(case['int_limit'])
    if kind == 'row':
        a = case['a']
        va = ds.Version(a)
        ctx.evaluations += len(case['bs']) - 1
        for b in case['bs']:
            vb = ds.Version(b)
            check_pair(ctx, a, b, va, vb)
            if str(vb) != b or str(va) != a:
                ctx.violation('operand-changed-by-comparison', 'after comparing %r with %r the operands read %r and %r' % (a, b, str(va), str(vb)),
                              {'kind': 'pair', 'a': a, 'b': b})
                return
    elif kind == 'pair':
        check_pair(ctx, case['a'], case['b'], ds.Version(case['a']), ds.Version(case['b']))
    elif kind == 'rebind':
        seq, bs = case['seq'], case['bs']
        obj = ds.Version(seq[0])
        for n, cur in enumerate(seq):
            if n:
                # give the same object its next value, by whole string or component-wise
                nxt = ds.Version(cur)
                if n % 2:
                    obj.full_version = cur
                else:
                    try:
                        obj.epoch, obj.debian_revision, obj.upstream_version = None, None, '0'
                        obj.upstream_version = nxt.upstream_version
                        obj.debian_revision = nxt.debian_revision
                        obj.epoch = nxt.epoch
                    except ValueError:
                        obj.full_version = cur
                if str(obj) != cur:
                    obj.full_version = cur
                ctx.count('rebind:value-replaced')
            hash(obj)
            for b in bs:
                check_pair(ctx, cur, b, obj, ds.Version(b))
                vb = ds.Version(b)
                check_pair(ctx, b, cur, vb, obj)
            # single-component assignments that MOVE the boundaries between epoch / upstream / revision (dropping the
            # revision of '1.0-2-3' leaves '1.0-2' = upstream '1.0', revision '2'): the object orders and hashes like the
            # string it now spells
            for attr, val in case.get('moves', [])[n * 2:n * 2 + 2]:
                naive = {'epoch': obj.epoch, 'upstream_version': obj.upstream_version, 'debian_revision': obj.debian_revision}
                naive[attr] = val
                try:
                    setattr(obj, attr, val)
                except ValueError:
                    continue
                now = str(obj)
                if dpkgver.classify(now) != 'accept':
                    continue
                ctx.count('rebind:component-assigned')
                fresh = ds.Version(now)
                if (fresh.epoch, fresh.upstream_version, fresh.debian_revision) != (naive['epoch'], naive['upstream_version'], naive['debian_revision']):
                    ctx.count('rebind:boundary-moved')      # the new string splits differently from "old parts with one replaced"
                for b in bs[:3] + [now]:
                    check_pair(ctx, now, b, obj, ds.Version(b))
                obj.full_version = cur
    elif kind == 'derived':
        vs, hows = case['vs'], case['how']
        try:
            objs = [derive(ds, s, h) for s, h in zip(vs, hows)]
        except Exception as e:
            ctx.violation('derived-object-cannot-be-made/%s' % type(e).__name__, 'making %r raised %r' % (list(zip(vs, hows)), e), case)
            return
        for s, h, o in zip(vs, hows, objs):
            ctx.count('derived:' + h)
            if str(o) != s:
                ctx.violation('derived-object-holds-another-value/' + h, 'a Version for %r obtained via %s reads %r' % (s, h, str(o)), case)
                return
        if case.get('touch', 0) == 1:
            for o in objs:
                hash(o)
        for i, (a, va) in enumerate(zip(vs, objs)):
            for j, (b, vb) in enumerate(zip(vs, objs)):
                check_pair(ctx, a, b, va, vb)
                check_pair(ctx, a, b, va, ds.Version(b))
                check_pair(ctx, a, b, ds.Version(a), vb)
            # a str-subclass operand on the right, and through version_compare
            b = vs[(i + 1) % len(vs)]
            ref = dpkgver.compare(a, b)
            ctx.mon('M.derived')
            got = (va < _Str(b), va == _Str(b), va > _Str(b), sgn(ds.version_compare(_Str(a), _Str(b))))
            if got != (ref < 0, ref == 0, ref > 0, ref):
                ctx.violation('operators-inconsistent-str-subclass-operand', '%r (%s) vs str subclass %r: %r, ref %d' % (a, hows[i], b, got, ref), case)
                return
        # the objects as members of collections: sorted / min / max agree with the reference order, set / dict fold equal ones
        key = functools.cmp_to_key(dpkgver.compare)
        want = sorted(vs, key=key)
        got = [str(o) for o in sorted(objs)]
        ctx.mon('M.derived.sorted')
        if [key(x) for x in got] != [key(x) for x in want] or sorted(got) != sorted(want):
            ctx.violation('sorted-disagrees-with-dpkg-order', 'sorted(%r) [made via %r] = %r, reference %r' % (vs, hows, got, want), case)
            return
        if dpkgver.compare(str(min(objs)), want[0]) != 0 or dpkgver.compare(str(max(objs)), want[-1]) != 0:
            ctx.violation('min-max-disagree-with-dpkg-order', 'min/max of %r [made via %r] = %r / %r' % (vs, hows, str(min(objs)), str(max(objs))), case)
            return
        classes = 1 + sum(1 for x, y in zip(want, want[1:]) if dpkgver.compare(x, y) != 0)
        d = {}
        for o in objs:
            d[o] = d.get(o, 0) + 1
        if len(set(objs)) != classes or len(d) != classes or sum(d.values()) != len(objs):
            ctx.violation('set-or-dict-of-versions-miscounts-equal-ones', '%r [made via %r]: %d distinct by dpkg, set %d, dict %d' % (
                vs, hows, classes, len(set(objs)), len(d)), case)
            return
        for s, h, o in zip(vs, hows, objs):
            if str(o) != s:
                ctx.violation('operand-changed-by-comparison', 'after the comparisons the %s object for %r reads %r' % (h, s, str(o)), case)
                return
    elif kind == 'window':
        for t in itertools.permutations(case['vs'], 3):
            check_triple(ctx, *t)
    elif kind == 'triples':
        vs = case['vs']
        for i in range(len(vs) - 2):
            check_triple(ctx, vs[i], vs[i + 1], vs[i + 2])
    elif kind == 'dpkg':
        for a, b in case['pairs']:
            ref = dpkgver.compare(a, b)
            op = {-1: 'lt', 0: 'eq', 1: 'gt'}[ref]
            rc = subprocess.run(['dpkg', '--compare-versions', a, op, b], stdout=subprocess.DEVNULL,
                                stderr=subprocess.DEVNULL).returncode
            ctx.extra['dpkg_crosscheck']['pairs'] += 1
            if rc != 0:
                ctx.extra['dpkg_crosscheck']['disagreements'] += 1
                ctx.inconclusive.append('reference model disagrees with dpkg on %r %s %r' % (a, op, b))

LEVEL_TEXT = ('Runtime monitoring: every ordered pair of a pool of 400 (quick) / 2800 (thorough) hostile valid version '
              'strings is pushed through all comparison operators, version_compare and hash() of the live tree and '
              'compared with an independent port of dpkg\'s verrevcmp; antisymmetry, transitivity (sampled triples + '
              'all triples in every window of neighbours in reference order) and hash/equality agreement are checked '
              'on the observed results.  Held-on-observed, not a proof: reach is the pool.')
LEVEL_NOTE = 'Trusted: CPython, vp.models.dpkgver (cross-checked against the dpkg binary in the thorough tier), the pool generator. Domain restricted to strings dpkg accepts.'
TECHNIQUE = 'runtime monitoring: boundary oracle (reference model of dpkg ordering) over all pairs of a generated pool; algebraic-law monitors on observed results'
