"""C11 - list views of a field read the exact values and write back only what changed.

Deciding monitor M: (i) split oracle - the view's values must equal an independent split of the
field text (comment lines dropped, separator split, surrounding whitespace and empty items
ignored); (ii) open-and-close without change leaves the dump byte-identical; (iii) after a history
of append/remove/replace/ValueReference edits the live list equals a Python-list model after every
step, the re-parsed field equals the model, every byte outside the field is unchanged and the
document is still one valid paragraph.  Auxiliary: K1 (LinkedList), K5 (every internal re-parse is
lossless), K6.
"""
import os

from .. import contracts

PROP = 'C11'
LEVEL = 'exploration'
RULE = ('Generated list fields (whitespace- or comma-separated; values with unique ids) in hostile layouts: first line empty / '
        'blank / without space after the colon, tab and multi-space continuation markers, separators before and after line '
        'breaks, leading/trailing/doubled commas, comment lines before the first value, between values and after a trailing '
        'separator, comments containing separators; placed first/middle/last among sentinel fields, with/without final '
        'newline; 1..4 edits (append/remove/replace/reference set/reference remove) per case, in both write-back modes '
        '(formatting preserved / reformat_when_finished), in 30% of the cases with 1-2 further formatting calls '
        '(reformat_when_finished, no_reformatting_when_finished, value_formatter with and without force_reformat) placed before, '
        'in the middle of or after the edits, comment lines inside a multi-line comma item, '
        'optionally with a second list view open on another field, through a '
        'fresh or one shared dict-view object, optionally after an abandoned edit session (exception inside the with block, '
        'never closed, close that fails); 35% of the cases also hold refused by-value edits (text that is not / no longer a value) followed by '
        'reference edits and by-value edits of the same entry.  '
        'Non-trivial: multi-line layout or comment inside or irregular separators, and >= 1 edit.')
ASSUMPTIONS = ['values never contain the separator (nor whitespace, for the whitespace list); removing the only value (documented to raise), '
               'sort and the Uploaders interpretation are outside the statement',
               'split oracle: comment lines are lines starting with "#" other than the field\'s first line']
ANCHORS = ['debian._deb822_repro.tokens:whitespace_split_tokenizer.<func>', 'debian._deb822_repro.tokens:comma_split_tokenizer.<func>',
           'debian._deb822_repro.tokens:whitespace_split_tokenizer',
           'debian._deb822_repro.parsing:_parse_comma_list_value', 'debian._deb822_repro.parsing:_parse_whitespace_list_value',
           'debian._deb822_repro._util:len_check_iterator',
           'debian._deb822_repro.parsing:Deb822ParsedTokenList.append_value', 'debian._deb822_repro.parsing:Deb822ParsedTokenList.remove',
           'debian._deb822_repro.parsing:Deb822ParsedTokenList._remove_node', 'debian._deb822_repro.parsing:Deb822ParsedTokenList.replace',
           'debian._deb822_repro.parsing:Deb822ParsedTokenList._update_field',
           'debian._deb822_repro.parsing:Deb822ParsedTokenList.append_separator',
           'debian._deb822_repro.parsing:Deb822ParsedTokenList._generate_reformatted_field_content',
           'debian._deb822_repro.parsing:ValueReference.remove']
MUST_REACH = ANCHORS
FLOORS = {'quick': {'nontrivial': 2500, 'monitors': {'M.read': 5000, 'M.noop': 5000, 'M.edit': 4000, 'M.writeback': 4000, 'M.abort': 1200, 'K5': 4000},
                    'counters': {'op:append': 1000, 'op:comment+append': 300, 'op:remove': 800, 'op:replace': 800, 'op:ref-set': 800, 'op:ref-remove': 800, 'op:iter-remove': 120, 'op:ref-after-replace': 300, 'refused:remove:former-value': 450, 'refused:remove:never-a-value': 450, 'refused:replace:former-value': 450, 'refused:replace:never-a-value': 450,
                                 'layout:first-line-blank': 200, 'layout:comment-inside': 800, 'layout:multi-line-item': 250,
                                 'layout:comment-inside-item': 200, 'layout:comment-inside-last-item': 80, 'layout:multi-line-item-starting-with-hash': 100, 'layout:blank-other-than-one-space-inside-item': 900, 'config:after/value_formatter': 250,
                                 'config:before/value_formatter': 120, 'config:mid/value_formatter': 130, 'config:after/value_formatter_force': 130,
                                 'config:after/no_reformatting_when_finished': 130}},
          'thorough': {'nontrivial': 150000, 'monitors': {'M.read': 300000, 'M.noop': 300000, 'M.edit': 250000, 'M.writeback': 250000,
                                                          'M.abort': 80000, 'K5': 250000},
                       'counters': {'op:append': 60000, 'op:comment+append': 18000, 'op:remove': 50000, 'op:replace': 50000, 'op:ref-set': 50000,
                                    'op:ref-remove': 50000, 'op:iter-remove': 8000, 'op:ref-after-replace': 30000, 'refused:remove:former-value': 50000, 'refused:remove:never-a-value': 50000, 'refused:replace:former-value': 50000, 'refused:replace:never-a-value': 50000, 'layout:first-line-blank': 12000, 'layout:comment-inside': 50000, 'layout:multi-line-item': 30000,
                                    'layout:comment-inside-item': 20000, 'layout:comment-inside-last-item': 8000, 'layout:multi-line-item-starting-with-hash': 9000, 'layout:blank-other-than-one-space-inside-item': 90000, 'config:after/value_formatter': 25000,
                                    'config:before/value_formatter': 12000, 'config:mid/value_formatter': 13000, 'config:after/value_formatter_force': 13000,
                                    'config:after/no_reformatting_when_finished': 13000}}}
LEVEL_TEXT = ('Runtime monitoring: seeded list-field layouts and edit histories on the live list views; reads are compared with an '
              'independent split oracle, every step of an edit history with a Python-list model, the written-back document '
              'byte-for-byte outside the field and by fresh parse inside it.  Held-on-observed.')
LEVEL_NOTE = 'Trusted: CPython, the split oracle (15 lines), the layout generator (cross-checked against the oracle on every case).'
TECHNIQUE = 'runtime monitoring: split-oracle on reads + edit history vs list model + byte-span comparison of the written-back document (deciding); K1/K5/K6 hooks'

PRE = 'Package: p\n# fc\nOther: keep  me \n'
POST = 'Tail: t\n more\n'


def oracle(ftxt, comma):
    body = ftxt.split(':', 1)[1]
    ls = body.split('\n')
    ls = [ls[0]] + [l for l in ls[1:] if not l.startswith('#')]
    joined = '\n'.join(ls)
    items = [x.strip() for x in joined.split(',')] if comma else joined.split()
    return [x for x in items if x]


def gen_layout(r, comma, name='F'):
    n = r.randint(1, 6)
    vals = []
    flags_pre = set()
    for i in range(n):
        if comma:
            v = r.choice(['foo%d', 'bar%d (>= 1.0)', 'baz%d | qux', 'a%d', 'lib-x%d [amd64 i386]', '${misc:Depends%d}', 'p%d:any',
                          '#hash%d', 'x#y%d', 'N%d <n@x.org>',
                          # blanks other than one space INSIDE an item belong to the item
                          'tab%d\t(>= 1.2)', 'two%d  spaces', 'mix%d \t | \talt'])
        else:
            v = r.choice(['foo%d', 'bar%d', 'amd64-%d', 'any%d', 'a%d', 'linux-any%d', '#hash%d', 'x#y%d', '!armel%d'])
        vals.append(v % i if r.random() < .8 else v.replace('%d', ''))
        if '\t' in vals[-1] or '  ' in vals[-1]:
            flags_pre.add('blank-other-than-one-space-inside-item')
    flags = set(flags_pre)
    texts = {}
    if comma and r.random() < .2:
        # ONE item of a comma list may itself span several lines (long dependency with version, arch list, profiles)
        k = r.randrange(len(vals))
        parts = [('#ml%d' if r.random() < .3 else 'ml%d') % k] + [r.choice(['(>= 1.%d~)', '[linux-any kfreebsd-any]', '<!nocheck>', '<!stage1 !cross>', 'x%d', '| alt%d'])
                                .replace('%d', str(j)) for j in range(r.randint(1, 5))]
        v = t = parts[0]
        for part in parts[1:]:
            cont = r.choice([' ', ' ', '\t', '  ']) + r.choice(['', ' ', '   ']) + part
            v += '\n' + cont
            t += '\n'
            if r.random() < .3:
                # comment lines INSIDE the item: they are no part of its value
                t += ''.join(r.choice(['# inside\n', '#\n', '# a, b\n', '#,\n']) for _ in range(r.choice([1, 1, 2])))
                flags.add('comment-inside-item')
                if k == len(vals) - 1:
                    flags.add('comment-inside-last-item')
            t += cont
        vals[k] = v
        texts[k] = t
        flags.add('multi-line')
        flags.add('multi-line-item')
        if v.startswith('#'):
            flags.add('multi-line-item-starting-with-hash')
    out = name + ':' + r.choice(['', ' ', ' ', '  ', '\t'])

    def linebreak():
        s = '\n'
        for _ in range(r.choice([0, 0, 0, 1, 2])):
            s += r.choice(['# note\n', '#\n', '# a, b c\n', '#,\n', '# x\n'])
            flags.add('comment-inside')
        s += r.choice([' ', ' ', '\t', '  ', ' \t'])
        flags.add('multi-line')
        return s

    if r.random() < .28:
        if out.endswith(':'):
            flags.add('first-line-empty')
        else:
            flags.add('first-line-blank')
        out += linebreak()
    if comma and r.random() < .1:
        out += ',' + r.choice(['', ' '])
        flags.add('irregular-separators')
    for i, v in enumerate(vals):
        out += texts.get(i, v)
        last = (i == len(vals) - 1)
        if comma:
            if not last or r.random() < .4:
                out += r.choice(['', '', ' ']) + ','
                if last:
                    flags.add('trailing-separator')
                if not last and r.random() < .1:
                    out += r.choice(['', ' ']) + ','
                    flags.add('irregular-separators')
                if not last:
                    out += linebreak() if r.random() < .45 else r.choice([' ', ' ', '', '  '])
                elif r.random() < .2:
                    out += ' '
            elif r.random() < .3:
                out += ' '
        else:
            if not last:
                out += (r.choice(['', ' ']) + linebreak()) if r.random() < .45 else r.choice([' ', ' ', '  ', '\t'])
            elif r.random() < .3:
                out += r.choice([' ', '\t'])
    out += '\n'
    if out.startswith(name + ':#'):
        flags.add('first-line-starts-with-hash')
    return out, vals, sorted(flags)


def gen_ops(r, comma, nvals, uid):
    ops = []
    n = nvals
    for _ in range(r.randint(1, 4)):
        k = r.random()
        new = r.choice(['NEW%d', 'n-%d', 'z%d (<< 2)'] if comma else ['NEW%d', 'n-%d', '#n%d']) % uid[0]
        uid[0] += 1
        if k < .22:
            ops.append(['append', new])
            n += 1
        elif k < .30:
            # a comment line (and/or a line break) followed by a value: the separator must go onto a continuation line
            ops.append(['comment+append', new, r.choice(['# added %d' % uid[0], 'plain text', '', None])])
            n += 1
        elif k < .40 and n > 1:
            ops.append(['remove', r.randrange(n)])
            n -= 1
        elif k < .45 and n > 2:
            # streaming removal through value references, combined with a direct removal of a value that the
            # running iteration has not reached yet
            idxs = sorted(r.sample(range(n), r.randint(2, n - 1)))
            ops.append(['iter-remove', idxs])
            n -= len(idxs)
        elif k < .50 and n:
            # a value reference READ earlier, the same entry then replaced directly on the list, then the old value
            # assigned back through the reference: the reference writes whatever it is given
            ops.append(['ref-after-replace', r.randrange(n), new])
        elif k < .62 and n:
            ops.append(['replace', r.randrange(n), new])
        elif k < .8 and n:
            ops.append(['ref-set', r.randrange(n), new])
        elif n > 1:
            ops.append(['ref-remove', r.randrange(n)])
            n -= 1
    return ops


def cases(ctx):
    r = ctx.rng('layouts')
    rr = ctx.rng('refused-edits')
    for _ in range(ctx.size(7000, 900000)):
        comma = r.random() < .5
        ftxt, vals, flags = gen_layout(r, comma)
        uid = [100]
        case = {'kind': 'list', 'comma': comma, 'field': ftxt, 'vals': vals, 'flags': flags,
                'pos': r.choice(['mid', 'mid', 'last', 'first']), 'final_nl': r.random() < .7,
                'reformat': r.random() < .3, 'key': r.choice(['F', 'F', 'f']), 'ops': gen_ops(r, comma, len(vals), uid),
                'shared_view': r.random() < .5, 'abort': r.choice([None, None, None, 'exception', 'unclosed', 'failed-close'])}
        if rr.random() < .35:
            # refused by-value edits inside the session, followed by edits through value references and by-value edits of the
            # new / the former text (own stream; the 'layouts' stream is untouched)
            extra = [['refused', rr.choice(['remove', 'replace']), rr.choice(['absent', 'former'])]]
            if rr.random() < .75:
                k = rr.randrange(50)
                extra.append(['ref-set', k, 'RN%d' % rr.randrange(10 ** 6)])
                for _ in range(rr.choice([1, 2, 2])):
                    extra.append(rr.choice([['replace', k, 'RR%d' % rr.randrange(10 ** 6)], ['refused', 'remove', 'former'],
                                            ['refused', 'replace', 'former'], ['remove', k]]))
            pos = rr.randint(0, len(case['ops']))
            case['ops'][pos:pos] = extra
        if r.random() < .3:
            calls = ['reformat_when_finished', 'no_reformatting_when_finished', 'value_formatter', 'value_formatter', 'value_formatter_force']
            case['config'] = [[r.choice(['before', 'mid', 'after', 'after']), r.choice(calls)] for _ in range(r.choice([1, 1, 2]))]
        if r.random() < .2:
            c2 = r.random() < .5
            g, gv, _ = gen_layout(r, c2, name='G')
            case['second'] = {'comma': c2, 'field': g, 'vals': gv, 'append': 'G%d' % uid[0], 'exit_first': r.random() < .5}
        yield case


def setup(ctx):
    if os.environ.get('VP_NO_K'):
        return
    from .. import kmon, kmon_repro
    kmon.attach_K1()
    kmon_repro.attach_K5()
    kmon_repro.attach_K6()


def finish(ctx):
    contracts.flush_evals(ctx)


class _Abandon(Exception):
    """Raised by the harness inside a `with` block to abandon an edit session."""


def _blank_first_line(ftxt, comma):
    first = ftxt.split(':', 1)[1].split('\n', 1)[0]
    return (not comma) and first != '' and first.strip() == '' and '\n' in ftxt[:-1]


def _classify_read_failure(case, exc):
    if _blank_first_line(case['field'], case['comma']):
        return 'ws-list-unreadable-when-first-line-blank-but-not-empty'
    return None


def _classify_edit_failure(case, exc):
    sec = case.get('second')
    if isinstance(exc, KeyError) and sec and _blank_first_line(sec['field'], sec['comma']):
        return 'ws-list-unreadable-when-first-line-blank-but-not-empty'
    if isinstance(exc, ValueError) and 'is whitespace or a comment' in str(exc) \
            and any(len(op) > 1 and isinstance(op[-1], str) and op[-1].startswith('#') for op in case['ops']):
        return 'first-value-line-starting-with-hash-read-as-comment'
    return None


def run_case(ctx, case):
    from debian._deb822_repro import (parse_deb822_file, LIST_SPACE_SEPARATED_INTERPRETATION as SP,
                                      LIST_COMMA_SEPARATED_INTERPRETATION as CM)
    try:
        from .. import kmon
        kmon.reset()
    except Exception:
        pass
    comma, ftxt, vals = case['comma'], case['field'], case['vals']
    for fl in case.get('flags', []):
        ctx.count('layout:' + fl)
    if oracle(ftxt, comma) != vals:
        ctx.violation('harness/generator-disagrees-with-oracle', '%r: %r vs %r' % (ftxt, vals, oracle(ftxt, comma)))
        return
    second = case.get('second')
    mid = ftxt + (second['field'] if second else '')
    pre, post = {'mid': (PRE, POST), 'last': (PRE + POST, ''), 'first': ('', PRE + POST)}[case['pos']]
    txt = pre + mid + post
    if not case['final_nl']:
        txt = txt[:-1]
    interp = CM if comma else SP
    key = case.get('key', 'F')
    f = parse_deb822_file(txt.splitlines(True))
    p = next(iter(f))
    # one dict-view object serves the whole case when case['shared_view'] (a view must not carry state from one
    # access to the next); otherwise every access takes a fresh view
    shared = p.as_interpreted_dict_view(interp) if case.get('shared_view') else None

    def view():
        return shared if shared is not None else p.as_interpreted_dict_view(interp)
    # --- (i) read
    ctx.mon('M.read')
    try:
        with view()[key] as l:
            got = list(l)
    except Exception as e:
        k = _classify_read_failure(case, e) or 'list-view-read-raises/%s' % type(e).__name__
        ctx.violation(k, 'field %r: %r' % (ftxt, e))
        return
    if got != vals:
        k = 'list-view-values-differ-from-split'
        if ftxt.startswith('F:#'):
            k = 'first-value-line-starting-with-hash-read-as-comment'
        ctx.violation(k, 'field %r: view %r split %r' % (ftxt, got, vals))
        return
    # --- (ii) open/close without change
    ctx.mon('M.noop')
    if f.dump() != txt:
        ctx.violation('open-close-without-change-modified-document', 'before %r after %r' % (txt, f.dump()))
        return
    # --- (ii') an ABANDONED edit session leaves no trace: not in the document, not in the next view of the field
    abort = case.get('abort')
    if abort:
        ctx.count('abort:' + abort)
        ctx.mon('M.abort')
        try:
            if abort == 'exception':
                try:
                    with view()[key] as l:
                        l.append('ABORTED1')
                        if len(vals) > 1:
                            l.remove(vals[0])
                        raise _Abandon()
                except _Abandon:
                    pass
            elif abort == 'unclosed':
                l = view()[key]
                l.append('ABORTED2')
                del l
            elif abort == 'failed-close':
                try:
                    with view()[key] as l:
                        for v in list(l):
                            l.remove(v)         # an empty field cannot be written back: close must fail
                except _Abandon:
                    raise
                except Exception:
                    pass
            now = f.dump()
            if abort != 'failed-close' and now != txt:
                ctx.violation('abandoned-edit-session-modified-document', '%s: before %r after %r' % (abort, txt, now))
                return
            if now == txt:
                with view()[key] as l:
                    got = list(l)
                if got != vals:
                    ctx.violation('abandoned-edit-session-leaks-into-next-view', '%s: field %r: next view shows %r, field text says %r'
                                  % (abort, ftxt, got, vals))
                    return
                if f.dump() != txt:
                    ctx.violation('open-close-after-abandoned-edit-modified-document', '%s: before %r after %r' % (abort, txt, f.dump()))
                    return
            else:
                return      # a failed close that nevertheless changed the text: nothing further is demanded of this case
        except _Abandon:
            raise
        except Exception as e:
            ctx.violation(_classify_edit_failure(case, e) or 'abandoned-edit-raises/%s' % type(e).__name__,
                          '%s on field %r: %r' % (abort, ftxt, e))
            return
    if not case['ops']:
        return
    # --- (iii) edit history against a list model
    model = list(vals)
    model2 = list(second['vals']) if second else None
    step = -1
    try:
        v1 = view()[key]
        v2 = p.as_interpreted_dict_view(CM if second['comma'] else SP)['G'] if second else None
        with v1 as l:
            if v2 is not None:
                v2.__enter__()
                v2.append(second['append'])
                model2.append(second['append'])
                if second['exit_first']:
                    v2.__exit__(None, None, None)
            if case['reformat']:
                l.reformat_when_finished()
            config = case.get('config') or []

            def configure(when):
                # formatting configuration of the session: WHICH formatting is chosen, and WHEN, never decides WHETHER edits are kept
                for w, call in config:
                    if w != when:
                        continue
                    ctx.count('config:%s/%s' % (when, call))
                    if call == 'reformat_when_finished':
                        l.reformat_when_finished()
                    elif call == 'no_reformatting_when_finished':
                        l.no_reformatting_when_finished()
                    else:
                        from debian._deb822_repro.formatter import one_value_per_line_trailing_separator as fmt
                        l.value_formatter(fmt, force_reformat=(call == 'value_formatter_force'))
            configure('before')
            former = []
            for step, op in enumerate(case['ops']):
                kind = op[0]
                if step == len(case['ops']) // 2:
                    configure('mid')
                ctx.count('op:' + kind)
                if kind == 'append':
                    l.append(op[1])
                    model.append(op[1])
                elif kind == 'comment+append':
                    if op[2] is None:
                        l.append_separator()
                        l.append_newline()
                    else:
                        l.append_comment(op[2])
                    l.append(op[1])
                    model.append(op[1])
                elif kind == 'refused':
                    # a by-value removal / replacement of a text that is NOT a value of the list (never was, or was one until
                    # an earlier edit of this session replaced it): refused or ignored - either way the list is as before
                    cand = [v for v in former if v not in model]
                    use_former = op[2] == 'former' and bool(cand)
                    v = cand[-1] if use_former else 'ABSENT-%d' % step
                    ctx.count('refused:%s:%s' % (op[1], 'former-value' if use_former else 'never-a-value'))
                    try:
                        if op[1] == 'remove':
                            l.remove(v)
                        else:
                            l.replace(v, 'REPL-%d' % step)
                        ctx.count('refused:not-raised')
                    except ValueError:
                        ctx.count('refused:raised-ValueError')
                elif kind == 'remove':
                    k = op[1] % len(model)
                    if len(model) < 2:
                        continue
                    v = model[k]
                    l.remove(v)
                    model.remove(v)
                    former.append(v)
                elif kind == 'replace':
                    k = op[1] % len(model)
                    v = model[k]
                    l.replace(v, op[2])
                    model[model.index(v)] = op[2]
                    former.append(v)
                elif kind == 'iter-remove':
                    idxs = [i for i in op[1] if i < len(model)]
                    if len(idxs) < 2 or len(idxs) >= len(model) or len(set(model)) != len(model):
                        continue
                    doomed = [model[i] for i in idxs]
                    direct = doomed[-1]                 # removed directly while the iteration is still before it
                    first = True
                    for ref in l.iter_value_references():
                        if first:
                            first = False
                            if ref.value != direct:
                                l.remove(direct)
                        if ref.value in doomed:
                            ref.remove()
                    model[:] = [v for v in model if v not in doomed]
                elif kind == 'ref-after-replace':
                    if len(set(model)) != len(model):
                        continue
                    refs = list(l.iter_value_references())
                    k = op[1] % len(model)
                    if len(refs) != len(model) or refs[k].value != model[k]:
                        ctx.violation('value-references-differ-from-list', 'step %d: refs %r model %r'
                                      % (step, [x.value for x in refs], model))
                        return
                    old_v = model[k]
                    l.replace(old_v, op[2])
                    if refs[k].value != op[2]:
                        ctx.violation('value-reference-does-not-follow-direct-replace', 'step %d: ref shows %r after replace(%r, %r)'
                                      % (step, refs[k].value, old_v, op[2]))
                        return
                    refs[k].value = old_v
                    model[k] = old_v
                    former.append(op[2])
                elif kind == 'ref-set':
                    refs = list(l.iter_value_references())
                    k = op[1] % len(model)
                    if len(refs) != len(model) or refs[k].value != model[k]:
                        ctx.violation('value-references-differ-from-list', 'step %d: refs %r model %r'
                                      % (step, [x.value for x in refs], model))
                        return
                    former.append(model[k])
                    refs[k].value = op[2]
                    model[k] = op[2]
                elif kind == 'ref-remove':
                    if len(model) < 2:
                        continue
                    refs = list(l.iter_value_references())
                    k = op[1] % len(model)
                    refs[k].remove()
                    model.pop(k)
                ctx.mon('M.edit')
                if list(l) != model:
                    live = list(l)
                    k = 'live-list-differs-from-model-after-%s' % kind
                    if len(live) == len(model) and any(a != b and [x for x in a.split('\n') if not x.startswith('#')] == b.split('\n')
                                                       for a, b in zip(live, model)):
                        k = 'comment-line-inside-item-reported-as-value-text'
                    ctx.violation(k,
                                  'field %r step %d %r: live %r model %r' % (ftxt, step, op, list(l), model))
                    return
            configure('after')
            if v2 is not None and not second['exit_first']:
                v2.__exit__(None, None, None)
    except Exception as e:
        ctx.violation(_classify_edit_failure(case, e) or 'list-edit-raises/%s' % type(e).__name__,
                      'field %r ops %r (step %d) reformat=%r: %r'
                      % (ftxt, case['ops'], step, case['reformat'], e))
        return
    # --- written-back document
    ctx.mon('M.writeback')
    out = f.dump()
    post_cmp = post if (case['final_nl'] or post == '') else post[:-1]
    if not (out.startswith(pre) and out.endswith(post_cmp) and len(out) >= len(pre) + len(post_cmp)):
        ctx.violation('list-write-back-changed-bytes-outside-the-field', 'before %r\nafter  %r' % (txt, out))
        return
    region = out[len(pre):len(out) - len(post_cmp)]
    if not region.startswith('F:') or (post_cmp and not region.endswith('\n')):
        ctx.violation('list-write-back-field-malformed', 'region %r in %r' % (region, out))
        return
    try:
        f2 = parse_deb822_file(out.splitlines(True))
        ps2 = list(f2)
        p2 = ps2[0]
        got2 = list(p2.as_interpreted_dict_view(interp)['F'])
        got3 = list(p2.as_interpreted_dict_view(CM if second['comma'] else SP)['G']) if second else None
    except Exception as e:
        k = 'written-back-document-does-not-reparse/%s' % type(e).__name__
        if out[len(pre):].startswith('F:#'):
            k = 'first-value-line-starting-with-hash-read-as-comment'
        ctx.violation(k, 'before %r ops %r\nafter %r: %r' % (txt, case['ops'], out, e))
        return
    if got2 != model:
        k = 'reparsed-list-differs-from-edited-model'
        if out[len(pre):].startswith('F:#'):
            k = 'first-value-line-starting-with-hash-read-as-comment'
        ctx.violation(k, 'before %r ops %r reformat=%r\nafter %r\nreparsed %r model %r'
                      % (txt, case['ops'], case['reformat'], out, got2, model))
        return
    if second and got3 != model2:
        ctx.violation('first-value-line-starting-with-hash-read-as-comment' if second['field'].startswith('G:#')
                      else 'second-view-reparsed-list-differs-from-model', 'after %r: %r vs %r' % (out, got3, model2))
        return
    if len(ps2) != 1 or f2.find_first_error_element() is not None:
        ctx.violation('document-no-longer-one-valid-paragraph', 'before %r ops %r\nafter %r' % (txt, case['ops'], out))
        return
    want_keys = [k for k in next(iter(parse_deb822_file(txt.splitlines(True)))).keys()]
    if list(p2.keys()) != want_keys:
        ctx.violation('field-order-changed-by-list-write-back', '%r vs %r' % (list(p2.keys()), want_keys))
        return
    fl = set(case.get('flags', []))
    if fl & {'multi-line', 'comment-inside', 'irregular-separators', 'first-line-blank', 'first-line-empty', 'trailing-separator'}:
        ctx.nontrivial()
