"""C19 - update_file converges to the published content and never corrupts the local file.

Deciding monitors
  M  boundary oracle: after every call (returned or raised) the local file, the return value and
     the presence of local + '.new' are compared with the published current version / the
     pre-state bytes, per the fault that was (or was not) on the taken path;
  T  trace specification over audit events recorded during the call (urllib.Request, open,
     os.rename / os.replace, os.remove): (1) inside the case directory the only path opened for
     writing is local + '.new'; (2) `local` changes only by a rename of local + '.new' onto it, at
     most once, and at that instant the '.new' content is exactly the published current content;
     (3) the URLs fetched follow "Index then the patch chain i..n-1" when local = v_i, never the
     full file; the full file is fetched when local is absent / foreign / the index is unusable.
Fault enumeration: every fault kind x every position: corrupt / truncate / remove each patch of
the chain, Index missing / unparsable / semantically incomplete / damaged (CRLF, cut, stray lines), full file missing, open of
'.new' fails, the k-th write fails for EVERY k, close fails, rename vetoed, and a source-free
LINE failpoint raising OSError at EVERY executed line of update_file / download_file /
download_gunzip_lines / replace_file in turn.
"""
import gzip
import hashlib
import os
import re
import shutil

from ..models import edscript

PROP = 'C19'
LEVEL = 'fault_enumeration'
RULE = ('Published histories v0..vn (n <= 5; Packages-shaped paragraphs incl. non-ASCII; reverted content, identical consecutive '
        'versions and the empty file included) served from a file:// mirror in a private temp dir, with a SHA1 or SHA256 '
        'index x local state {each v_i, current, foreign, absent} x fault {none, each patch corrupted / truncated / missing, '
        'the three index fields in any order and among unknown fields, patch names in 5 schemes (sequential, counting down, unpadded numbers, hash-like, time stamps - the order of the History lines, not of the names, is the order of application), Index missing / unparsable / incomplete / the real Index damaged (CRLF, truncated, stray or appended blank-like lines), full file missing, open/.new fails, k-th write fails for every k, close '
        'fails, rename vetoed, OSError at every executed line of the four functions}.  Every (scenario, fault, position) is '
        'one evaluation; after every transient fault (and after plain successes) the call is REPEATED without faults - it must converge, '
        'resp. find the file current with nothing but the Index fetched; and the mirror ADVANCES between two calls (v_k published, '
        'local updated, v_k+1..v_n published under the same URL, call repeated).  Non-trivial: >= 2 patches to apply, or a fault that actually fired on the taken path.')
ASSUMPTIONS = ['every published version is a list of newline-terminated lines none of which is a lone "." (an ed script cannot carry either); lines may contain FF, VT, FS/GS/RS, NEL, U+2028/9 (not CR: text-mode file I/O translates it)',
               '"Index unusable" = missing or syntactically unparsable (some line is neither "Name: ...", nor a continuation line, nor a blank '
               'separator - the documented line grammar, kept as a 20-line reference in the harness); for an Index that is grammatical but '
               'semantically incomplete or damaged only the safety half (nothing corrupted, no .new left) is demanded',
               'the process locale is not part of the statement: a quarter of the shards run with an ASCII locale encoding (no UTF-8 mode) '
               'and must converge on non-ASCII content all the same',
               'faults are injected at the I/O boundary from the harness (module-level open shadowing the builtin for *.new, audit-hook '
               'veto of os.rename/os.replace) and by sys.monitoring LINE failpoints; single faults only']
ANCHORS = ['debian.debian_support:update_file', 'debian.debian_support:replace_file', 'debian.debian_support:download_file',
           'debian.debian_support:download_gunzip_lines', 'debian.debian_support:PackageFile.__iter__',
           'debian.debian_support:patch_lines', 'debian.debian_support:patches_from_ed_script']
MUST_REACH = ANCHORS
FLOORS = {'quick': {'nontrivial': 1500, 'monitors': {'M.outcome': 6000, 'T.trace': 6000, 'M.next-call': 1900, 'M.advance': 120},
                    'counters': {'fault-fired:write-fail': 400, 'fault-fired:rename-veto': 40, 'fault-fired:close-fail': 40,
                                 'fault-fired:open-fail': 40, 'fault-fired:failpoint': 2000, 'fault-fired:corrupt-patch': 20,
                                 'fault-fired:trunc-patch': 20, 'fault-fired:inconsistent-patch': 20, 'converged-by-chain>=2': 25, 'alg:sha256': 1000, 'alg:sha1': 1000,
                                 'damaged-index:malformed': 100, 'damaged-index:grammatical': 40, 'converged-by-chain>=2-with-names-not-in-text-order': 15,
                                 'next-call:after-success': 230, 'next-call:after-error': 1700, 'advance:second-stage-by-chain': 60,
                                 'call-spelling:deprecated-alias-or-keywords': 350,
                                 'index-field-order:other-than-current-history-patches': 2500, 'index-field-order:patches-before-history': 1000}},
          'thorough': {'nontrivial': 60000, 'monitors': {'M.outcome': 250000, 'T.trace': 250000, 'M.next-call': 190000, 'M.advance': 12000},
                       'counters': {'fault-fired:write-fail': 20000, 'fault-fired:rename-veto': 1500, 'fault-fired:close-fail': 1500,
                                    'fault-fired:open-fail': 1500, 'fault-fired:failpoint': 80000, 'fault-fired:corrupt-patch': 800,
                                    'fault-fired:trunc-patch': 800, 'fault-fired:inconsistent-patch': 800, 'converged-by-chain>=2': 1500, 'alg:sha256': 40000,
                                    'alg:sha1': 40000, 'damaged-index:malformed': 7000, 'damaged-index:grammatical': 3000, 'converged-by-chain>=2-with-names-not-in-text-order': 1000,
                                    'next-call:after-success': 23000, 'next-call:after-error': 170000, 'advance:second-stage-by-chain': 6000,
                                    'call-spelling:deprecated-alias-or-keywords': 30000,
                                    'index-field-order:other-than-current-history-patches': 250000, 'index-field-order:patches-before-history': 100000}}}
LEVEL_TEXT = ('Runtime monitoring with fault enumeration: for every generated (history, local state) the call is repeated once per '
              'fault position - every write index, every executed source line of the four functions, every patch of the chain - '
              'against a file:// mirror; an outcome oracle and a trace specification over audit events decide each execution.  '
              'Faults are single; reach is the generated histories.')
LEVEL_NOTE = ('Trusted: CPython (gzip, urllib file:// handler, audit events, sys.monitoring), vp.models.edscript (independent ed-script '
              'deriver, self-checked by its own reference interpreter), hashlib for the published hashes.')
TECHNIQUE = 'runtime monitoring + fault enumeration: outcome oracle and audit-event trace specification over every injected fault position (I/O-boundary faults and sys.monitoring LINE failpoints)'

_AUDIT = [None]


def gen_para(r, i):
    out = ['Package: p%d\n' % i, 'Version: %d.%d\n' % (r.randint(0, 9), r.randint(0, 9))]
    if r.random() < .5:
        out.append('Description: \xe9 x%d\n' % r.randint(0, 99))
        if r.random() < .5:
            out.append(' more 漢 text\n')
        if r.random() < .25:
            # characters Python's str.splitlines() treats as line boundaries but files and ed scripts do not
            out.append(' form%sfeed %d\n' % (r.choice(['\x0c', '\x0b', '\x1c', '\x1d', '\x1e', '\x85', '\u2028', '\u2029']), r.randint(0, 99)))
            if r.random() < .3:
                out.append(' .\n')
                out.append(' 1a\n')
    out.append('\n')
    return out


def evolve(r, v):
    v = list(v)
    for _ in range(r.randint(1, 3)):
        op = r.choice('iiddrr')
        if op == 'i' or not v:
            k = r.randint(0, len(v))
            v[k:k] = gen_para(r, r.randint(0, 99))
        elif op == 'd':
            k = r.randrange(len(v))
            del v[k:k + r.randint(1, 3)]
        else:
            v[r.randrange(len(v))] = 'Changed: %d\n' % r.randint(0, 999)
    return v


def gen_history(r):
    n = r.randint(1, 5)
    v0 = []
    if r.random() < .85:
        for i in range(r.randint(1, 4)):
            v0 += gen_para(r, i)
    vs = [v0]
    for _ in range(n):
        k = r.random()
        if k < .12 and len(vs) >= 2:
            vs.append(list(vs[r.randrange(len(vs) - 1)]))     # reverted content
        elif k < .2:
            vs.append(list(vs[-1]))                            # identical consecutive versions
        elif k < .25:
            vs.append([])                                      # the empty file
        else:
            vs.append(evolve(r, vs[-1]))
    return vs


def cases(ctx):
    r = ctx.rng('histories')
    for hno in range(ctx.size(24, 1800)):
        vs = gen_history(r)
        alg = ['sha1', 'sha256'][(hno + ctx.shard) % 2]
        n = len(vs) - 1
        # layout of the Index: real ones use one blank; the format allows any run of blanks/tabs
        ilayout = [r.choice([' ', ' ', '  ', '\t', ' \t', '   ']), r.choice([' ', ' ', '  ', '\t', '     '])]
        pnames = r.choice(PNAME_SCHEMES)
        forder = r.choice(['CHP', 'CHP', 'CPH', 'PHC', 'HPC', 'PCH', 'HCP', 'xCyHzP', 'PzHxC', 'yHCP'])
        if len(vs) >= 3:
            for _ in range(6):
                k = r.randint(2, len(vs) - 1)
                yield {'kind': 'advance', 'versions': vs, 'alg': alg, 'k': k, 'ilayout': ilayout, 'pnames': pnames, 'forder': forder,
                       'start': r.choice(['v%d' % i for i in range(k)] + ['foreign', 'absent'])}
        starts = ['v%d' % i for i in range(n)] + ['current', 'foreign', 'absent']
        for start in starts:
            faults = [{'kind': 'none'}, {'kind': 'no-index'}, {'kind': 'bad-index', 'variant': r.randrange(3)},
                      {'kind': 'incomplete-index', 'variant': r.randrange(3)}, {'kind': 'full-missing'},
                      {'kind': 'open-fail'}, {'kind': 'write-fail', 'k': 'all'}, {'kind': 'close-fail'},
                      {'kind': 'rename-veto'},
                      # every executed line for the first histories of a shard, every 5th line (rotating phase) for the rest
                      {'kind': 'failpoint', 'n': 'all', 'stride': 1 if hno < 2 else 5, 'phase': r.randrange(5)}]
            for _ in range(2):
                # the real Index damaged the way transports and editors damage text: the index-shaped counterpart of 'bad-index'
                faults.append({'kind': 'damaged-index', 'op': r.choice(DAMAGE_OPS), 'a': r.random(), 'b': r.randrange(1000)})
            for j in range(n):
                faults.append({'kind': 'inconsistent-patch', 'j': j})
                faults.append({'kind': 'corrupt-patch', 'j': j})
                faults.append({'kind': 'trunc-patch', 'j': j})
                if r.random() < .4:
                    faults.append({'kind': 'missing-patch', 'j': j})
            for fault in faults:
                yield {'kind': 'update', 'versions': vs, 'alg': alg, 'start': start, 'fault': fault, 'ilayout': ilayout, 'pnames': pnames, 'forder': forder}


# ---------------------------------------------------------------------------
# damaged indexes and the line grammar that says which of them are malformed

DAMAGE_OPS = ['crlf', 'crlf+empty-line', 'truncate', 'truncate-in-blanks', 'stray-line', 'append', 'prepend', 'nothing']
NOTHINGS = ['', '', '\n', ' \n', '\n\n', '\t', '\r\n']
STRAY_LINES = ['\x0c\n', '\r\n', ' \x0b\n', '\x1c\n', 'garbage here\n', '<html><body>404 Not Found</body></html>\n', '\xa0\n',
               '\u2028\n', '-\n', ':\n', ' \x0c \n', '\x85\n', '\t\r\n']
APPENDS = [' ', '\t', '\n', ' \n', '\n\n', '\r\n', '\x0c', '  \t', '\n \x0c\n', '\x0b\n']
PREPENDS = ['\n', ' \n', '\ufeff', '\x0c\n', '\r\n', '# comment\n']
_RE_FIELD = re.compile(r'^([A-Za-z][A-Za-z0-9-_]+):(?:\s*(.*?))?\s*$')
_RE_CONT = re.compile(r'^\s+(?:\.|(\S.*?)\s*)$')


def damage_index(idx, fault):
    op, a, b = fault['op'], fault['a'], fault['b']
    if op == 'nothing':
        return NOTHINGS[b % len(NOTHINGS)]          # a 0-byte / blank-only Index: exists, holds no field at all
    if op == 'crlf':
        return idx.replace('\n', '\r\n')
    if op == 'crlf+empty-line':
        return idx.replace('\n', '\r\n') + '\r\n'
    if op == 'truncate':
        return idx[:1 + int(a * (len(idx) - 1))]
    if op == 'truncate-in-blanks':
        # cut inside (or right after) the leading blanks of a record line
        starts = [m.end() for m in re.finditer(r'\n[ \t]+', idx)]
        return idx[:starts[b % len(starts)] - (b // 7) % 2] if starts else idx[:-1]
    lines = idx.splitlines(True)
    if op == 'stray-line':
        at = int(a * (len(lines) + 1))
        return ''.join(lines[:at] + [STRAY_LINES[b % len(STRAY_LINES)]] + lines[at:])
    if op == 'append':
        return idx + APPENDS[b % len(APPENDS)]
    return PREPENDS[b % len(PREPENDS)] + idx


def index_malformed(text):
    """The documented line grammar of the index (field line / continuation line / blank separator): True when some line
    is none of these, i.e. when the index cannot be interpreted at all and the statement demands the full download."""
    lines = re.findall(r'[^\n]*\n|[^\n]+', text)
    i, pkg = 0, False
    while i < len(lines):
        line = lines[i]
        if line.strip(' \t') == '\n':
            if not pkg:
                return True
            pkg = False
            i += 1
            continue
        if not _RE_FIELD.match(line):
            return True
        i += 1
        while i < len(lines) and _RE_CONT.match(lines[i]):
            i += 1
        pkg = True
    return False


# ---------------------------------------------------------------------------
# publishing

def _sha(text_bytes, alg):
    return getattr(hashlib, alg)(text_bytes).hexdigest()


PNAME_SCHEMES = ['seq', 'seq', 'countdown', 'unpadded', 'hashlike', 'timestamp', 'urlish']


def pname(scheme, i):
    """Name of the i-th published patch.  Real mirrors use time stamps; the format only asks for a blank-free token, and the
    order of application is the order of the History lines - not any order on the names."""
    if scheme in (None, 'seq'):
        return 'p%d' % i
    if scheme == 'countdown':
        return 'p%d' % (9 - i)                  # later patches sort EARLIER
    if scheme == 'unpadded':
        return 'p%d' % (8 + i)                  # p8 p9 p10 p11: numeric order is not text order
    if scheme == 'urlish':
        # characters that are literal inside a URL path but mean something elsewhere in a URL (a colon after a letter-led word
        # reads as a scheme when the name is taken for a reference; '+', '&', '=', ';', ',', '@', '~') - the name is a path
        # component under <remote>.diff/, nothing else.  ('%', '?', '#' are not literal in a URL and stay out.)
        return ['pT-2024-05-01:0204.33', 'p+x&y=1', 'pa:b', 'p,x@y', 'p;x', 'p~z'][i % 6] + ('' if i < 6 else str(i))
    if scheme == 'hashlike':
        return 'p' + hashlib.md5(b'%d' % i).hexdigest()[:10]
    return 'p2024-0%d-%02d-%04d.%02d' % (1 + i // 3, 28 - 9 * (i % 3), 1200 - 100 * i, i)   # time stamps, not monotone as text


def publish(root, vs, alg, fault, ilayout=(' ', ' '), scheme=None, forder=None):
    indent, gap = ilayout
    os.makedirs(os.path.join(root, 'Packages.diff'))
    cur = ''.join(vs[-1]).encode('utf-8')
    with gzip.open(os.path.join(root, 'Packages.gz'), 'wb') as f:
        f.write(cur)
    pre = 'SHA1' if alg == 'sha1' else 'SHA256'
    hist, pat = [], []
    for i in range(len(vs) - 1):
        name = pname(scheme, i)
        script = edscript.make_ed_script(vs[i], vs[i + 1])
        if edscript.apply_ed_script(vs[i], script) != vs[i + 1]:
            raise RuntimeError('harness: ed script deriver is wrong')
        if fault['kind'] == 'inconsistent-patch' and fault['j'] == i:
            # a well-formed patch whose own hash is recorded correctly but which does not produce v_{i+1}
            script = ['0a\n', 'X-Injected: inconsistent\n', '.\n']
        sb = ''.join(script).encode('utf-8')
        with gzip.open(os.path.join(root, 'Packages.diff', name + '.gz'), 'wb') as f:
            f.write(sb)
        vb = ''.join(vs[i]).encode('utf-8')
        hist.append('%s%s%s%d%s%s\n' % (indent, _sha(vb, alg), gap, len(vb), gap, name))
        pat.append('%s%s%s%d%s%s\n' % (indent, _sha(sb, alg), gap, len(sb), gap, name))
    # the three fields in any order (real indexes: Current, History, Patches - the format does not promise it), optionally
    # among fields the reader does not know
    sections = {'C': '%s-Current: %s %d\n' % (pre, _sha(cur, alg), len(cur)),
                'H': '%s-History:\n%s' % (pre, ''.join(hist)),
                'P': '%s-Patches:\n%s' % (pre, ''.join(pat)),
                'x': 'X-Patch-Precedence: merged\n', 'y': 'Canonical-Path: dists/sid/main/binary-amd64/Packages.diff\n',
                'z': '%s-Download:\n%s' % (pre, ''.join(l.replace('\n', '.gz\n') for l in pat))}
    idx = ''.join(sections[c] for c in (forder or 'CHP'))
    ipath = os.path.join(root, 'Packages.diff', 'Index')
    kind = fault['kind']
    if kind == 'no-index':
        idx = None
    elif kind == 'bad-index':
        idx = ['this is not\n an index ::\n', '\n\nSHA1-Current: x 1\n', ': nothing\n'][fault['variant']]
    elif kind == 'incomplete-index':
        if fault['variant'] == 0:          # no Current line
            idx = idx.split('\n', 1)[1]
        elif fault['variant'] == 1:        # History without Patches (truncated download)
            idx = idx[:idx.index(pre + '-Patches:')]
        else:                              # Patches lists nothing
            idx = idx[:idx.index(pre + '-Patches:')] + pre + '-Patches:\n'
    elif kind == 'damaged-index':
        idx = damage_index(idx, fault)
    if idx is not None:
        with open(ipath, 'w', encoding='utf-8', newline='') as f:
            f.write(idx)
    if kind == 'full-missing':
        os.unlink(os.path.join(root, 'Packages.gz'))
    if kind in ('corrupt-patch', 'trunc-patch', 'missing-patch'):
        p = os.path.join(root, 'Packages.diff', pname(scheme, fault['j']) + '.gz')
        if kind == 'corrupt-patch':
            with gzip.open(p, 'rb') as f:
                t = f.read()
            with gzip.open(p, 'wb') as f:
                f.write(t + b'1a\nX-Injected: 1\n.\n')
        elif kind == 'trunc-patch':
            with open(p, 'rb') as f:
                b = f.read()
            with open(p, 'wb') as f:
                f.write(b[:max(1, len(b) // 2)])
        else:
            os.unlink(p)


# ---------------------------------------------------------------------------
# fault injection at the I/O boundary

class InjectedFault(Exception):
    """A failure that is not an OSError (writes can also fail with ValueError, UnicodeEncodeError, MemoryError...)."""


class _FaultyFile(object):
    def __init__(self, f, state):
        self._f, self._s = f, state

    def write(self, x):
        s = self._s
        s['writes'] += 1
        if s.get('fail_write') == s['writes']:
            s['fired'] = True
            if s['writes'] % 3 == 2:
                raise UnicodeEncodeError('utf-8', 'x', 0, 1, 'surrogates not allowed (injected)')
            raise OSError(28, 'No space left on device (injected)')
        return self._f.write(x)

    def __enter__(self):
        self._f.__enter__()
        return self

    def __exit__(self, *a):
        r = self._f.__exit__(*a)
        if self._s.get('fail_close') and a[0] is None:
            self._s['fired'] = True
            raise OSError(5, 'Input/output error on close (injected)')
        return r

    def close(self):
        self._f.close()
        if self._s.get('fail_close'):
            self._s['fired'] = True
            raise OSError(5, 'Input/output error on close (injected)')

    def __getattr__(self, n):
        return getattr(self._f, n)


def _make_open(state):
    import builtins
    real = builtins.open

    def fake_open(name, mode='r', *a, **kw):
        if isinstance(name, str) and name.endswith('.new') and any(c in mode for c in 'wax+'):
            if state.get('fail_open'):
                state['fired'] = True
                raise OSError(13, 'Permission denied (injected)')
            return _FaultyFile(real(name, mode, *a, **kw), state)
        return real(name, mode, *a, **kw)
    return fake_open


# ---------------------------------------------------------------------------

def setup(ctx):
    from .. import probes
    _AUDIT[0] = probes.AuditLog(names=('open', 'os.rename', 'os.remove', 'urllib.Request'))
    ctx.extra['failpoint_sites'] = set()


def _chain_result_with_inconsistent_patch(vs, i0, j):
    """What the patch chain from v_{i0} yields when patch j is the injected inconsistent one (later patches can
    wipe the damage, e.g. when they delete everything); None if that cannot be predicted."""
    lines = list(vs[i0])
    try:
        for i in range(i0, len(vs) - 1):
            script = ['0a\n', 'X-Injected: inconsistent\n', '.\n'] if i == j else edscript.make_ed_script(vs[i], vs[i + 1])
            for first, last, text in edscript.to_patches(edscript.parse_ed_script(script)):
                lines[first:last] = text
    except Exception:
        return None
    return lines


def _expected_chain(vs, start_lines):
    """Index i of the first published version equal to the local content (None if not in history)."""
    for i in range(len(vs) - 1):
        if vs[i] == start_lines:
            return i
    return None


def run_advance(ctx, case):
    """The mirror ADVANCES between two calls: published up to v_k, local brought up to date, then v_{k+1}..v_n are
    published under the same URL and the call is repeated.  Nothing learned from the first index may survive."""
    from debian import debian_support as ds
    vs, alg, k = case['versions'], case['alg'], case['k']
    d = ctx.tmpdir()
    audit = _AUDIT[0]
    try:
        root = os.path.join(d, 'mirror')
        os.makedirs(os.path.join(d, 'local'))
        local = os.path.join(d, 'local', 'Packages')
        remote = 'file://' + root + '/Packages'
        start = case['start']
        if start != 'absent':
            with open(local, 'w', encoding='utf-8') as f:
                f.write(''.join(vs[int(start[1:])]) if start.startswith('v') else 'Foreign: 1\n\n')
        for stage, upto in enumerate((k, len(vs))):
            if os.path.exists(root):
                shutil.rmtree(root)
            publish(root, vs[:upto], alg, {'kind': 'none'}, tuple(case.get('ilayout', (' ', ' '))), case.get('pnames'), case.get('forder'))
            target = ''.join(vs[upto - 1])
            before = None
            if os.path.exists(local):
                with open(local, encoding='utf-8') as f:
                    before = f.read()
            ctx.mon('M.advance')
            ret = err = None
            with audit:
                try:
                    ret = ds.update_file(remote, local)
                except Exception as e:      # noqa
                    err = e
            urls = [e[1] for e in audit.events if e[0] == 'urllib.Request']
            after = None
            if os.path.exists(local):
                with open(local, encoding='utf-8') as f:
                    after = f.read()
            tag = 'advance/stage%d' % stage
            if err is not None or ret is None or ''.join(ret) != target or after != target or os.path.exists(local + '.new'):
                ctx.violation('download-decoded-with-the-locale-encoding' if isinstance(err, UnicodeError) else
                              'does-not-follow-an-advancing-mirror' if stage else 'returned-without-converging',
                              '%s: err %r, returned %r..., local %r..., published %r...'
                              % (tag, err, ret and ''.join(ret)[:80], after and after[:80], target[:80]), case)
                return
            if stage and before is not None and before != target:
                chain_from = _expected_chain(vs[:upto], vs[k - 1])
                want = ['%s.diff/%s.gz' % (remote, pname(case.get('pnames'), i)) for i in range(chain_from, upto - 1)] \
                    if chain_from is not None else None
                got = [u for u in urls if '.diff/p' in u]
                if want is not None and (got != want or remote + '.gz' in urls):
                    ctx.violation('T3/not-updated-by-the-patch-chain', '%s: fetched %r, chain is %r' % (tag, urls, want), case)
                    return
                ctx.count('advance:second-stage-by-chain' if want is not None else 'advance:second-stage-by-full-file')
        ctx.nontrivial(case=case)
    finally:
        shutil.rmtree(d, ignore_errors=True)


def run_case(ctx, case):
    if case.get('kind') == 'advance':
        return run_advance(ctx, case)
    fault = case['fault']
    d = ctx.tmpdir()
    try:
        root = os.path.join(d, 'mirror')
        publish(root, case['versions'], case['alg'], fault, tuple(case.get('ilayout', (' ', ' '))), case.get('pnames'), case.get('forder'))
        os.makedirs(os.path.join(d, 'local'))
        os.makedirs(os.path.join(d, 'tmp'))
        if fault['kind'] == 'write-fail' and fault['k'] == 'all':
            k = 1
            ctx.evaluations -= 1
            while True:
                ctx.evaluations += 1
                fired = _one(ctx, dict(case, fault={'kind': 'write-fail', 'k': k}), d)
                if not fired or k > 400:
                    break
                k += 1
            return
        if fault['kind'] == 'failpoint' and fault['n'] == 'all':
            ctx.evaluations -= 1
            total = _one(ctx, dict(case, fault={'kind': 'failpoint', 'n': 0}), d, count_only=True)
            step = max(1, fault.get('stride', 1))
            for n in range(1 + (fault.get('phase', 0) % step), (total or 0) + 1, step):
                ctx.evaluations += 1
                _one(ctx, dict(case, fault={'kind': 'failpoint', 'n': n}), d)
            return
        _one(ctx, case, d)
    finally:
        shutil.rmtree(d, ignore_errors=True)


def _one(ctx, case, d, count_only=False):
    """One execution of update_file under one fault.  Returns whether the fault fired (or, with
    count_only, the number of monitored lines executed)."""
    from debian import debian_support as ds
    from .. import probes
    vs, alg, start, fault = case['versions'], case['alg'], case['start'], case['fault']
    kind = fault['kind']
    ctx.count('alg:' + alg)
    fo = ''.join(c for c in (case.get('forder') or 'CHP') if c in 'CHP')
    ctx.count('index-field-order:' + fo)
    if fo != 'CHP':
        ctx.count('index-field-order:other-than-current-history-patches')
    if fo.index('P') < fo.index('H'):
        ctx.count('index-field-order:patches-before-history')
    ctx.count('index-indent:%r' % (case.get('ilayout', [' '])[0],))
    ctx.count('fault:' + kind)
    ctx.count('start:' + ('vi' if start.startswith('v') else start))
    if True:
        root = os.path.join(d, 'mirror')
        remote = 'file://' + root + '/Packages'
        local = os.path.join(d, 'local', 'Packages')
        for stale in (local, local + '.new'):
            if os.path.exists(stale):
                os.unlink(stale)
        target = ''.join(vs[-1])
        if start.startswith('v'):
            start_lines = vs[int(start[1:])]
        elif start == 'current':
            start_lines = vs[-1]
        elif start == 'foreign':
            start_lines = ['Foreign: 1\n', '\n']
        else:
            start_lines = None
        before = None
        if start_lines is not None:
            before = ''.join(start_lines)
            with open(local, 'w', encoding='utf-8') as f:
                f.write(before)
        # what the statement says must happen
        is_current = start_lines is not None and start_lines == vs[-1]
        chain_from = None if (start_lines is None or is_current) else _expected_chain(vs, start_lines)
        malformed = None
        if kind == 'damaged-index':
            with open(os.path.join(root, 'Packages.diff', 'Index'), encoding='utf-8', newline='') as f:
                itext = f.read()
                # an index without a single field is as unusable as one that cannot be read at all
                malformed = index_malformed(itext) or itext.strip() == ''
            ctx.count('damaged-index:%s:%s' % (fault['op'], 'malformed' if malformed else 'grammatical'))
            ctx.count('damaged-index:%s' % ('malformed' if malformed else 'grammatical'))
        index_usable = kind not in ('no-index', 'bad-index') and not malformed
        uses_chain = chain_from is not None and index_usable and start_lines is not None
        needs_write = not (is_current and index_usable) or start_lines is None
        # faults
        state = {'writes': 0, 'fired': False}
        veto = {'on': kind == 'rename-veto', 'fired': False, 'renames': [], 'bad_new_content': None}
        if kind == 'write-fail':
            state['fail_write'] = fault['k']
        elif kind == 'close-fail':
            state['fail_close'] = True
        elif kind == 'open-fail':
            state['fail_open'] = True
        audit = _AUDIT[0]

        def on_rename(src, dst):
            veto['renames'].append((src, dst))
            if dst == local:
                try:
                    with open(src, encoding='utf-8') as f:
                        if f.read() != target:
                            veto['bad_new_content'] = src
                except OSError:
                    veto['bad_new_content'] = src
            if veto['on'] and dst == local:
                veto['fired'] = True
                raise OSError(13, 'rename vetoed (injected)')
        probes_hook = _RenameHook.install()
        probes_hook.cb = on_rename
        fp = None
        if kind == 'failpoint':
            codes = [probes.resolve('debian.debian_support:' + n) for n in
                     ('update_file', 'replace_file', 'download_file', 'download_gunzip_lines')]
            fp = probes.Failpoint(codes)
            fp.start()
            exc = OSError(5, 'injected at failpoint') if (fault['n'] or 0) % 2 else InjectedFault('injected at failpoint')
            fp.arm(fault['n'] if fault['n'] else None, exc)
        import tempfile
        old_tmp = tempfile.tempdir
        tempfile.tempdir = os.path.join(d, 'tmp')       # temp files of the call live (and die) with the case dir
        had_open = 'open' in ds.__dict__
        old_open = ds.__dict__.get('open')
        ds.open = _make_open(state)
        ret = err = None
        try:
            with audit:
                verbose = (len(vs) + len(start) + (fault.get('j') or fault.get('k') or fault.get('n') or 0)) % 2 == 1
                ctx.count('verbose:%s' % verbose)
                try:
                    if verbose:             # same call, chatty configuration (its prints go to a sink)
                        import contextlib
                        import io
                        with contextlib.redirect_stdout(io.StringIO()):
                            ret = ds.update_file(remote, local, verbose=True)
                    elif (len(vs) + len(start)) % 5 == 0:
                        # the same call under its other public names / spellings
                        import warnings
                        ctx.count('call-spelling:deprecated-alias-or-keywords')
                        with warnings.catch_warnings():
                            warnings.simplefilter('ignore', DeprecationWarning)
                            if (fault.get('j') or fault.get('k') or fault.get('n') or 0) % 2:
                                ret = ds.updateFile(remote, local)
                            else:
                                ret = ds.update_file(remote=remote, local=local, verbose=False)
                    else:
                        ret = ds.update_file(remote, local)
                except Exception as e:      # noqa - every error kind is an outcome here
                    err = e
        finally:
            tempfile.tempdir = old_tmp
            probes_hook.cb = None
            if had_open:
                ds.open = old_open
            else:
                del ds.open
            if fp is not None:
                fp.stop()
        events = list(audit.events)
        if count_only:
            return fp.seen
        fired = state['fired'] or veto['fired'] or (fp is not None and fp.fired_at is not None)
        if kind in ('corrupt-patch', 'trunc-patch', 'missing-patch', 'inconsistent-patch'):
            fired = uses_chain and chain_from <= fault['j']
            if fired and kind == 'inconsistent-patch' and \
                    _chain_result_with_inconsistent_patch(vs, chain_from, fault['j']) in (None, vs[-1]):
                fired = False       # later patches wipe the damage: the result legitimately matches the index
        elif kind == 'full-missing':
            fired = needs_write and not uses_chain
        elif kind in ('no-index', 'bad-index', 'incomplete-index', 'damaged-index'):
            fired = start_lines is not None
        if fired:
            ctx.count('fault-fired:' + kind)
            if fp is not None and fp.fired_at:
                ctx.extra['failpoint_sites'].add('%s:%d' % fp.fired_at)
        # ---------------- M: outcome oracle
        ctx.mon('M.outcome')
        after = None
        if os.path.exists(local):
            with open(local, encoding='utf-8') as f:
                after = f.read()
        tag = '%s/%s' % (('vi' if start.startswith('v') else start), kind)
        if os.path.exists(local + '.new'):
            ctx.violation('temporary-file-left-behind', '%s: %s.new exists after the call (err=%r)' % (tag, local, err), case)
        must_fail = fired and kind in ('corrupt-patch', 'trunc-patch', 'missing-patch', 'inconsistent-patch', 'write-fail', 'close-fail', 'open-fail',
                                       'rename-veto', 'full-missing')
        # a damaged index that is still grammatical may or may not carry enough to be used: only safety is demanded
        safety_only = (kind in ('incomplete-index', 'failpoint') or (kind == 'damaged-index' and not malformed)) and fired
        if err is None:
            if ret is None or ''.join(ret) != target or after != target:
                k = 'returned-without-converging'
                if must_fail:
                    k = 'fault-on-the-taken-path-not-reported'
                ctx.violation(k, '%s: returned %r..., local %r..., published %r...'
                              % (tag, (ret and ''.join(ret))[:120] if ret is not None else None, after and after[:120], target[:120]), case)
            elif must_fail and kind not in ('full-missing',):
                ctx.violation('fault-on-the-taken-path-not-reported', '%s: call returned normally although the fault fired' % tag, case)
        else:
            renamed_ok = kind == 'failpoint' and after == target and any(x[1] == local for x in veto['renames'])
            if after != before and not renamed_ok:
                ctx.violation('local-file-changed-although-an-error-was-raised',
                              '%s: error %r; before %r... after %r...' % (tag, err, before and before[:120], after and after[:120]), case)
            if not (must_fail or safety_only):
                k = 'error-without-a-fault-on-the-taken-path'
                if isinstance(err, NotImplementedError) and alg == 'sha256':
                    k = 'sha256-index-unusable-on-this-python'
                if isinstance(err, UnicodeError):
                    k = 'download-decoded-with-the-locale-encoding'
                ctx.violation(k, '%s: %r' % (tag, err), case)
        # ---------------- T: trace specification
        ctx.mon('T.trace')
        urls = [e[1] for e in events if e[0] == 'urllib.Request']
        case_dir = d + os.sep
        for e in events:
            if e[0] == 'open' and isinstance(e[1], str) and e[1].startswith(case_dir):
                flags = e[3] if len(e) > 3 and isinstance(e[3], int) else 0
                writing = bool(flags & (os.O_WRONLY | os.O_RDWR | os.O_CREAT | os.O_TRUNC | os.O_APPEND))
                if writing and e[1] != local + '.new' and not e[1].startswith(os.path.join(d, 'tmp') + os.sep):
                    ctx.violation('T1/opened-for-writing-something-other-than-dot-new', '%s: %r' % (tag, e), case)
        onto_local = [x for x in veto['renames'] if x[1] == local]
        if len(onto_local) > 1 or any(x[0] != local + '.new' for x in onto_local):
            ctx.violation('T2/local-replaced-other-than-by-one-rename-of-dot-new', '%s: %r' % (tag, veto['renames']), case)
        if veto['bad_new_content'] is not None:
            ctx.violation('T2/renamed-content-is-not-the-published-content', '%s' % tag, case)
        if after != before and not onto_local:
            ctx.violation('T2/local-changed-without-a-rename', '%s' % tag, case)
        full = remote + '.gz'
        patch_urls = [u for u in urls if '.diff/p' in u]
        if uses_chain and kind in ('none', 'write-fail', 'close-fail', 'open-fail', 'rename-veto') and (err is None or fired):
            want = ['%s.diff/%s.gz' % (remote, pname(case.get('pnames'), i)) for i in range(chain_from, len(vs) - 1)]
            if patch_urls != want or full in urls:
                ctx.violation('T3/not-updated-by-the-patch-chain', '%s: fetched %r, chain is %r' % (tag, urls, want), case)
            elif len(want) >= 2 and err is None:
                ctx.count('converged-by-chain>=2')
                if [u.rsplit('/', 1)[1] for u in want] != sorted(u.rsplit('/', 1)[1] for u in want):
                    ctx.count('converged-by-chain>=2-with-names-not-in-text-order')
        if err is None and start_lines is not None and not is_current and not uses_chain and kind != 'failpoint' and full not in urls:
            ctx.violation('T3/no-full-download-although-local-unknown-or-index-unusable', '%s: fetched %r' % (tag, urls), case)
        if is_current and index_usable and kind == 'none' and (patch_urls or full in urls):
            ctx.violation('T3/downloads-although-local-is-current', '%s: fetched %r' % (tag, urls), case)
        if (uses_chain and len(vs) - 1 - chain_from >= 2) or fired:
            ctx.nontrivial(case=case)
        # ---------------- the NEXT call on the same local file, without any fault: after a transient failure it must
        # converge; after a success it must find the file current (Index only, nothing downloaded, nothing rewritten)
        if kind in ('none', 'write-fail', 'close-fail', 'open-fail', 'rename-veto') or (kind == 'failpoint' and (fault['n'] or 0) % 4 == 1):
            ctx.mon('M.next-call')
            ctx.count('next-call:after-%s' % ('error' if err is not None else 'success'))
            veto['renames'][:] = []
            probes_hook.cb = lambda src, dst: veto['renames'].append((src, dst))
            ret2 = err2 = None
            try:
                with audit:
                    try:
                        ret2 = ds.update_file(remote, local)
                    except Exception as e:      # noqa
                        err2 = e
            finally:
                probes_hook.cb = None
            urls2 = [e[1] for e in audit.events if e[0] == 'urllib.Request']
            after2 = None
            if os.path.exists(local):
                with open(local, encoding='utf-8') as f:
                    after2 = f.read()
            if err2 is not None or ret2 is None or ''.join(ret2) != target or after2 != target or os.path.exists(local + '.new'):
                ctx.violation('download-decoded-with-the-locale-encoding' if isinstance(err2, UnicodeError) else
                              'next-call-after-%s-does-not-converge' % ('transient-failure' if err is not None else 'success'),
                              '%s: second call: err %r, returned %r..., local %r..., published %r...'
                              % (tag, err2, ret2 and ''.join(ret2)[:80], after2 and after2[:80], target[:80]), case)
            elif err is None and after == target and ([u for u in urls2 if not u.endswith('.diff/Index')]
                                                      or any(x[1] == local for x in veto['renames'])):
                ctx.violation('T3/downloads-although-local-is-current', '%s: second call fetched %r renames %r'
                              % (tag, urls2, veto['renames']), case)
        return fired


class _RenameHook(object):
    """One process-wide audit hook for os.rename / os.replace that can veto (raise) - audit hooks
    cannot be removed, so it is installed once and switched through `cb`."""
    _inst = None

    def __init__(self):
        self.cb = None

    @classmethod
    def install(cls):
        if cls._inst is None:
            import sys
            inst = cls._inst = cls()

            def hook(event, args):
                if event == 'os.rename' and inst.cb is not None:
                    src, dst = args[0], args[1]
                    if isinstance(src, bytes):
                        src = os.fsdecode(src)
                    if isinstance(dst, bytes):
                        dst = os.fsdecode(dst)
                    inst.cb(src, dst)
            sys.addaudithook(hook)
        return cls._inst
