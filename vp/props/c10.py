"""C10 - structural edits of a preserved document only move or insert whole elements.

Deciding monitor M: list-of-(name, exact text) reference model per paragraph + list of paragraphs.
Every field carries unique ids, so a field seen in the dump identifies the one that was parsed.
After every operation the dump must be the concatenation of the model's field texts in model order
with the original separators (a missing final newline may be supplied), (name, i) on the live
object must denote the i-th occurrence in document order, and a fresh parse must show the model's
paragraphs.  Auxiliary: K1/K2 (containers), K3/K4 (paragraph indexes), K5, K6.
"""
import os

from .. import contracts
from ..gens import rtdoc

PROP = 'C10'
LEVEL = 'exploration'
RULE = ('Generated documents with unique-id fields, unique or duplicated names (both paragraph implementations), with/without '
        'final newline, free comments between paragraphs, leading/trailing comment blocks, and the empty file x histories of '
        '<= 8 operations: order_first/last/before/after with plain-name (= all occurrences) and (name, i) keys and references, '
        'sort_fields with explicit and default key, indexed/un-indexed set and delete, Deb822FileElement.insert at every index '
        'incl. 0 and past-the-end, append; 30% of the histories also hold sorts whose key function raises or returns keys that cannot be ordered '
        '(the paragraph must keep every field, whole).  Non-trivial: duplicated names present or >= 2 paragraphs, and >= 2 operations.')
ASSUMPTIONS = ['reference semantics: "before" uses the first, "after" the last occurrence of a plain-name reference; un-indexed set '
               'replaces the first occurrence and removes the others; fields moved together keep their relative order',
               'insert/append: only paragraph order and whole-text preservation are demanded; which side of a free-floating comment '
               'the new paragraph lands on and where the separating blank line goes are left free',
               'operations that raise (self-relative re-order, missing key/index) need only leave a document made of whole fields',
               'sort_fields() without a key sorts case-insensitively by field name (the documented default_field_sort_key), stably']
ANCHORS = ['debian._deb822_repro.parsing:Deb822NoDuplicateFieldsParagraphElement.order_first',
           'debian._deb822_repro.parsing:Deb822NoDuplicateFieldsParagraphElement.order_last',
           'debian._deb822_repro.parsing:Deb822NoDuplicateFieldsParagraphElement.order_before',
           'debian._deb822_repro.parsing:Deb822NoDuplicateFieldsParagraphElement.order_after',
           'debian._deb822_repro.parsing:Deb822NoDuplicateFieldsParagraphElement.sort_fields',
           'debian._deb822_repro.parsing:Deb822DuplicateFieldsParagraphElement._nodes_being_relocated',
           'debian._deb822_repro.parsing:Deb822DuplicateFieldsParagraphElement.order_first',
           'debian._deb822_repro.parsing:Deb822DuplicateFieldsParagraphElement.order_last',
           'debian._deb822_repro.parsing:Deb822DuplicateFieldsParagraphElement.order_before',
           'debian._deb822_repro.parsing:Deb822DuplicateFieldsParagraphElement.order_after',
           'debian._deb822_repro.parsing:Deb822DuplicateFieldsParagraphElement._regenerate_relative_kvapir_order',
           'debian._deb822_repro.parsing:Deb822DuplicateFieldsParagraphElement.sort_fields',
           'debian._deb822_repro.parsing:Deb822DuplicateFieldsParagraphElement.set_kvpair_element',
           'debian._deb822_repro.parsing:Deb822DuplicateFieldsParagraphElement.remove_kvpair_element',
           'debian._deb822_repro.parsing:Deb822DuplicateFieldsParagraphElement._resolve_to_single_node',
           'debian._deb822_repro.parsing:Deb822FileElement.insert',
           'debian._deb822_repro.parsing:Deb822FileElement.append']
MUST_REACH = ANCHORS
FLOORS = {'quick': {'nontrivial': 1200, 'monitors': {'M.step': 8000, 'M.index': 8000, 'M.reparse': 8000, 'K3': 3000, 'K4': 3000, 'K6': 5000},
                    'counters': {'op:order_first': 500, 'op:order_after': 500, 'op:insert': 300, 'op:append': 300,
                                 'dup-moved-together': 150, 'placed-after-unterminated-last-field': 60, 'big-document': 8, 'new-paragraph-equal-in-content-to-an-existing-one': 250, 'sort-key-fails:boom-first': 90, 'sort-key-fails:boom-mid': 90, 'sort-key-fails:boom-last': 90, 'sort-key-fails:unorderable': 90, 'sort-key-fails:boom-on-compare': 90}},
          'thorough': {'nontrivial': 80000, 'monitors': {'M.step': 500000, 'M.index': 500000, 'M.reparse': 500000, 'K3': 200000,
                                                         'K4': 200000, 'K6': 300000},
                       'counters': {'op:order_first': 30000, 'op:order_after': 30000, 'op:insert': 20000, 'op:append': 20000,
                                    'dup-moved-together': 10000, 'placed-after-unterminated-last-field': 4000, 'big-document': 1200, 'new-paragraph-equal-in-content-to-an-existing-one': 25000, 'sort-key-fails:boom-first': 4500, 'sort-key-fails:boom-mid': 4500, 'sort-key-fails:boom-last': 4500, 'sort-key-fails:unorderable': 4500, 'sort-key-fails:boom-on-compare': 4500}}}
LEVEL_TEXT = ('Runtime monitoring: seeded histories of structural operations on live format-preserving documents; after every '
              'operation the dump is compared with a whole-field reference list model (unique ids identify every field), the '
              '(name, i) index of the live paragraph is compared with document order, a fresh parse is compared with the model, '
              'and representation invariants K1-K6 run on every underlying call.  Held-on-observed.')
LEVEL_NOTE = 'Trusted: CPython, vp.gens.rtdoc layout bookkeeping, the list model of the reorder semantics (written from the docstrings).'
TECHNIQUE = 'runtime monitoring: operation history vs whole-field list reference model with unique ids (deciding) + representation-invariant hooks K1-K6'

SORT_KEYS = {'lower': lambda n: n.lower(), 'len-lower': lambda n: (len(n), n.lower()), 'rev': lambda n: [-ord(c) for c in n.lower()],
             # keys that TIE different names: the sort must be stable ("same semantics as for sorted")
             'pkg-first': lambda n: 0 if n.lower() in ('package', 'source') else 1, 'len': len,
             'first-letter': lambda n: n[0].lower(), 'constant': lambda n: 0}


def ftext(f):
    return f['comments'] + f['body']


def gen_key(r, names, allow_index):
    n = r.choice(names)
    occ = [x for x in names if x.lower() == n.lower()]
    if allow_index and r.random() < .45:
        return [r.choice([n, n.lower()]), r.choice(list(range(len(occ))) + [-1])]
    if not allow_index and r.random() < .1:
        return [n, 0]
    return r.choice([n, n, n.upper(), n.lower()])


def gen_newpara(r, ids):
    out = []
    used = set()
    for _ in range(r.randint(1, 3)):
        n = r.choice(rtdoc.NAMES)
        if n.lower() in used:
            continue
        used.add(n.lower())
        v = ids.next('nv')
        if r.random() < .3:
            v += '\n ' + ids.next('nv')
        out.append([n, v])
    return out


def cases(ctx):
    if ctx.shard == 0:
        yield {'kind': 'repo-tests'}        # the repository's own tests under K1-K6, as one more workload
    r = ctx.rng('docs')
    rf = ctx.rng('failing-sorts')
    for n in range(ctx.size(2600, 400000)):
        if r.random() < .04:
            ids = rtdoc.Ids()
            ids.n = 5000
            yield {'kind': 'emptyfile', 'ops': [[r.choice(['append', 'insert']), r.choice([0, 0, 1, 5]), gen_newpara(r, ids)]
                                                for _ in range(r.randint(1, 4))]}
            continue
        dup = r.random() < .55
        big = r.random() < .012
        doc = rtdoc.gen_doc(r, dup_rate=(0.15 if big else 0.4) if dup else 0.0, max_fields=6, big=big)
        ids = rtdoc.Ids()
        ids.n = 100000 if big else 5000
        names = [[f['name'] for f in p] for p in doc['paras']]
        dupflag = [len({f['name'].lower() for f in p}) < len(p) for p in doc['paras']]
        ops = []
        # a NEW paragraph may have exactly the content of one that is already there (a stanza cloned before it is edited,
        # the same generated paragraph added twice): content equality is not identity
        clones = [[[f['name'], f['value']] for f in p] for p in doc['paras']
                  if not big and len({f['name'].lower() for f in p}) == len(p) and all(f['value'].strip() and not f['value'].startswith('#') for f in p)]
        for _ in range(r.randint(1, 8)):
            pi = r.randrange(len(names))
            nm = names[pi]
            isdup = dupflag[pi]
            k = r.random()
            if k < .14:
                ops.append(['order_first', pi, gen_key(r, nm, isdup)])
            elif k < .28:
                ops.append(['order_last', pi, gen_key(r, nm, isdup)])
            elif k < .42:
                ops.append(['order_before', pi, gen_key(r, nm, isdup), gen_key(r, nm, isdup)])
            elif k < .56:
                ops.append(['order_after', pi, gen_key(r, nm, isdup), gen_key(r, nm, isdup)])
            elif k < .64:
                ops.append(['sort', pi, r.choice(['default', 'lower', 'len-lower', 'rev', 'pkg-first', 'len', 'first-letter', 'constant', 'reentrant'])])
            elif k < .73:
                key = gen_key(r, nm, isdup) if r.random() < .7 else r.choice(['Brand-New', 'x-new'])
                ops.append(['set', pi, key, ids.next('sv') + ('\n ' + ids.next('sv') if r.random() < .3 else '')])
                if isinstance(key, str) and key.lower() not in [x.lower() for x in nm]:
                    nm.append(key)
            elif k < .80:
                ops.append(['del', pi, gen_key(r, nm, isdup)])
            elif k < .90:
                idx = r.choice([0, 0, 1, 2, len(names), len(names) + 3, r.randint(0, len(names))])
                newp = gen_newpara(r, ids) if r.random() < .7 or not clones else [list(x) for x in r.choice(clones)]
                clones.append(newp)
                ops.append(['insert', idx, newp])
                dupflag.insert(min(idx, len(names)), False)
                names.insert(min(idx, len(names)), [x[0] for x in newp])
            else:
                newp = gen_newpara(r, ids) if r.random() < .7 or not clones else [list(x) for x in r.choice(clones)]
                clones.append(newp)
                ops.append(['append', 0, newp])
                names.append([x[0] for x in newp])
                dupflag.append(False)
        # a sort whose key function FAILS (raises at the first / a middle / the last name, or returns keys that cannot be
        # ordered): the caller's exception comes back and the paragraph still holds every field, whole (own stream)
        if rf.random() < .3:
            for _ in range(rf.choice([1, 1, 2])):
                ops.insert(rf.randint(0, len(ops)), ['sort', rf.randrange(len(doc['paras'])), rf.choice(FAILING_SORTS)])
        yield {'kind': 'struct', 'doc': doc, 'ops': ops}


def setup(ctx):
    if os.environ.get('VP_NO_K'):
        return
    from .. import kmon, kmon_repro
    kmon.attach_K1()
    kmon.attach_K2()
    kmon_repro.attach_all()


def finish(ctx):
    contracts.flush_evals(ctx)


# ---------------------------------------------------------------------------
# reference model of key resolution / re-ordering

FAILING_SORTS = ['boom-first', 'boom-mid', 'boom-last', 'unorderable', 'boom-on-compare']


class _KeyBoom(Exception):
    """The caller's own exception, raised inside a sort key function."""


class _NoOrder(object):
    def __init__(self, n):
        self.n = n

    def __lt__(self, other):
        raise _KeyBoom('comparison of sort keys failed')


def failing_key(which, nfields):
    calls = [0]
    at = {'boom-first': 1, 'boom-mid': max(1, (nfields + 1) // 2), 'boom-last': max(1, nfields)}.get(which)

    def key(n):
        calls[0] += 1
        if at is not None and calls[0] >= at:
            raise _KeyBoom('key function failed at call %d' % calls[0])
        if which == 'unorderable':
            return n.lower() if calls[0] % 2 else len(n)
        if which == 'boom-on-compare':
            return _NoOrder(n)
        return n.lower()
    return key


class OpError(Exception):
    pass


def resolve(fields, key, dup_impl):
    """-> list of indices into `fields` denoted by `key` (model semantics)."""
    if isinstance(key, list):
        name, i = key
        occ = [j for j, f in enumerate(fields) if f['name'].lower() == name.lower()]
        if not occ:
            raise OpError('KeyError')
        if not dup_impl:
            if i != 0:
                raise OpError('KeyError')
            return occ
        try:
            return [occ[i]]
        except IndexError:
            raise OpError('KeyError')
    occ = [j for j, f in enumerate(fields) if f['name'].lower() == key.lower()]
    if not occ:
        raise OpError('KeyError')
    return occ


def model_reorder(fields, kind, key, ref, dup_impl):
    moved = resolve(fields, key, dup_impl)
    if kind in ('order_before', 'order_after'):
        refs = resolve(fields, ref, dup_impl)
        rj = refs[0] if kind == 'order_before' else refs[-1]
        if rj in moved:
            raise OpError('ValueError')
    mv = [fields[j] for j in moved]
    rest = [f for j, f in enumerate(fields) if j not in moved]
    if kind == 'order_first':
        return mv + rest
    if kind == 'order_last':
        return rest + mv
    at = rest.index(fields[rj])
    if kind == 'order_before':
        return rest[:at] + mv + rest[at:]
    return rest[:at + 1] + mv + rest[at + 1:]


def split_para_text(text, fields):
    """Decompose `text` into a sequence of the given (unique) field texts; None if impossible."""
    out = []
    pos = 0
    remaining = list(fields)
    while pos < len(text):
        for f in remaining:
            t = ftext(f)
            if text.startswith(t, pos):
                out.append(f)
                remaining.remove(f)
                pos += len(t)
                break
        else:
            return None
    return out if not remaining else None


def tokey(k):
    return tuple(k) if isinstance(k, list) else k


# ---------------------------------------------------------------------------

def run_case(ctx, case):
    try:
        from .. import kmon
        kmon.reset()
    except Exception:
        pass
    if case['kind'] == 'repo-tests':
        from .. import repotests
        return repotests.run_repo_tests_under_monitors(ctx, ('K1', 'K2', 'K3', 'K4', 'K5', 'K6'))
    if case['kind'] == 'emptyfile':
        from debian._deb822_repro.parsing import Deb822FileElement
        f = Deb822FileElement.new_empty_file()
        model = {'lead': '', 'seps': [], 'trail': '', 'final_newline': True, 'paras': []}
        return _history(ctx, case, f, model, [])
    from debian._deb822_repro import parse_deb822_file
    doc = case['doc']
    if sum(len(p) for p in doc['paras']) >= 80:
        ctx.count('big-document')
    model = {'lead': doc['lead'], 'seps': list(doc['seps']), 'trail': doc['trail'], 'final_newline': doc['final_newline'],
             'paras': [[dict(fl) for fl in p] for p in doc['paras']]}
    text = rtdoc.doc_text(model)
    f = parse_deb822_file(text.splitlines(keepends=True), accept_files_with_duplicated_fields=True)
    if f.dump() != text:
        ctx.violation('initial-dump-differs', 'text %r' % text)
        return
    paras = list(f)
    if len(paras) != len(model['paras']):
        ctx.violation('harness/paragraph-count', 'text %r' % text)
        return
    _history(ctx, case, f, model, paras)
    d = case['doc']
    hasdup = any(len({fl['name'].lower() for fl in p}) < len(p) for p in d['paras'])
    if len(case['ops']) >= 2 and (hasdup or len(d['paras']) >= 2):
        ctx.nontrivial()


def _history(ctx, case, f, model, paras):
    from debian._deb822_repro import parse_deb822_file
    from debian._deb822_repro.parsing import Deb822ParagraphElement, Deb822DuplicateFieldsParagraphElement
    adj = ctx.extra.setdefault('op_adjacencies_observed', set())
    prev_kind = 'start'
    for step, op in enumerate(case['ops']):
        kind = op[0]
        before = f.dump()
        adj.add('%s->%s' % (prev_kind, op[0]))
        prev_kind = op[0]
        ctx.count('op:' + kind)
        if kind in ('insert', 'append'):
            if not _insert(ctx, step, op, f, model, paras, before, Deb822ParagraphElement):
                return
        else:
            pi = op[1]
            if pi >= len(paras):
                continue
            live, fields = paras[pi], model['paras'][pi]
            dup_impl = isinstance(live, Deb822DuplicateFieldsParagraphElement)
            unterminated_last = not model['final_newline'] and pi == len(paras) - 1
            expected = None      # new field list per the reference model, None = "whatever whole-field arrangement"
            raised = None
            try:
                if kind in ('order_first', 'order_last', 'order_before', 'order_after'):
                    try:
                        expected = model_reorder(fields, kind, op[2], op[3] if len(op) > 3 else None, dup_impl)
                        if len(resolve(fields, op[2], dup_impl)) > 1:
                            ctx.count('dup-moved-together')
                        if unterminated_last and expected[-1] is not fields[-1]:
                            ctx.count('placed-after-unterminated-last-field')
                    except OpError as e:
                        expected = 'raise'
                    args = [tokey(op[2])] + ([tokey(op[3])] if len(op) > 3 else [])
                    getattr(live, kind)(*args)
                elif kind == 'sort':
                    if op[2] == 'default':
                        # documented default: case-insensitive by field name (default_field_sort_key), stable
                        live.sort_fields()
                        expected = sorted(fields, key=lambda fl: fl['name'].lower())
                    elif op[2] in FAILING_SORTS:
                        expected = 'raise'
                        ctx.count('sort-key-fails:' + op[2])
                        try:
                            live.sort_fields(key=failing_key(op[2], len(fields)))
                        except (_KeyBoom, TypeError) as e:
                            raised = e
                            ctx.count('sort-key-fails:exception-came-back')
                    elif op[2] == 'reentrant':
                        # the key function looks at the paragraph being sorted (read-only): `in`, len(), iteration
                        ctx.count('sort-key-reads-the-paragraph-being-sorted')
                        live.sort_fields(key=lambda n: ((True if dup_impl else n in live), len(list(live.keys())) > 0, n.lower()))
                        expected = sorted(fields, key=lambda fl: fl['name'].lower())
                    else:
                        live.sort_fields(key=SORT_KEYS[op[2]])
                        expected = sorted(fields, key=lambda fl: SORT_KEYS[op[2]](fl['name']))
                    if unterminated_last and expected != 'raise':
                        ctx.count('placed-after-unterminated-last-field')
                elif kind == 'set':
                    key, value = op[2], op[3]
                    try:
                        idxs = resolve(fields, key, dup_impl)
                    except OpError:
                        idxs = None
                    if idxs is None and isinstance(key, list) and not (key[1] == 0 and not any(
                            fl['name'].lower() == key[0].lower() for fl in fields)):
                        continue        # invalid index on set: outside the compared interface
                    live[tokey(key)] = value
                    expected = ('set', idxs, key, value)
                    if idxs is None and unterminated_last:
                        ctx.count('placed-after-unterminated-last-field')
                elif kind == 'del':
                    try:
                        idxs = resolve(fields, op[2], dup_impl)
                    except OpError:
                        continue
                    if len(idxs) >= len(fields):
                        continue        # would empty the paragraph
                    del live[tokey(op[2])]
                    expected = [fl for j, fl in enumerate(fields) if j not in idxs]
            except (KeyError, ValueError, IndexError) as e:
                raised = e
            ctx.mon('M.step')
            after = f.dump()
            if not _settle(ctx, step, op, model, pi, expected, raised, before, after):
                return
        if not _check_views(ctx, step, op, f, paras, model, parse_deb822_file):
            return


def _settle(ctx, step, op, model, pi, expected, raised, before, after):
    """Compare the dump after a paragraph-level op with the model and update the model."""
    fields = model['paras'][pi]
    after_n = after if after.endswith('\n') else after + '\n'
    if model['final_newline'] and not after.endswith('\n'):
        ctx.violation('final-newline-lost', 'step %d %r: %r' % (step, op, after))
        return False
    pre = model['lead']
    for j in range(pi):
        pre += rtdoc.para_text(model['paras'][j]) + model['seps'][j]
    post = ''
    for j in range(pi + 1, len(model['paras'])):
        post += model['seps'][j - 1] + rtdoc.para_text(model['paras'][j])
    post += model['trail']
    if not (after_n.startswith(pre) and after_n.endswith(post) and len(after_n) >= len(pre) + len(post)):
        ctx.violation('text-outside-the-paragraph-changed', 'step %d %r\nbefore=%r\nafter =%r' % (step, op, before, after))
        return False
    region = after_n[len(pre):len(after_n) - len(post)]
    if isinstance(expected, tuple) and expected[0] == 'set':
        if raised is not None:
            ctx.violation('set-raises/%s' % type(raised).__name__, 'step %d %r on %r: %r' % (step, op, before, raised))
            return False
        _, idxs, key, value = expected
        name = key[0] if isinstance(key, list) else key
        if idxs is None:                       # new field at the end
            head, new_at, tail, own = list(fields), len(fields), [], ''
        else:
            first = idxs[0]
            drop = set(idxs[1:])
            head = [fl for j, fl in enumerate(fields[:first])]
            tail = [fl for j, fl in enumerate(fields) if j > first and j not in drop]
            own = fields[first]['comments']
            name = fields[first]['name']
        ht, tt = rtdoc.para_text(head), rtdoc.para_text(tail)
        if not (region.startswith(ht + own) and region.endswith(tt) and len(region) >= len(ht) + len(own) + len(tt)):
            k = 'set-did-not-replace-exactly-the-addressed-occurrences'
            if idxs is None and not model['final_newline'] and region.startswith(ht[:-1]):
                k = 'field-glued-after-unterminated-last-field'
            ctx.violation(k,
                          'step %d %r\nbefore=%r\nafter =%r' % (step, op, before, after))
            return False
        body = region[len(ht) + len(own): len(region) - len(tt)]
        if not body.startswith(name + ':') or not body.endswith('\n'):
            ctx.violation('rewritten-field-malformed', 'step %d %r body=%r' % (step, op, body))
            return False
        newf = {'name': name, 'comments': own, 'body': body, 'value': value, 'id': 's%d' % step}
        model['paras'][pi] = head + [newf] + tail
    elif expected == 'raise' or raised is not None:
        if expected != 'raise' and raised is not None:
            ctx.violation('operation-raises/%s' % type(raised).__name__, 'step %d %r on %r: %r' % (step, op, before, raised))
            return False
        if raised is None and expected == 'raise':
            # the reference model calls this self-relative / missing; the library accepted it: only whole-field-ness demanded
            pass
        got = split_para_text(region, fields)
        if got is None:
            ctx.violation('fields-not-whole-after-rejected-operation', 'step %d %r\nbefore=%r\nafter =%r' % (step, op, before, after))
            return False
        model['paras'][pi] = got
    elif expected is None:                     # default-key sort: permutation, stable, idempotent (checked on next default sort)
        got = split_para_text(region, fields)
        if got is None:
            ctx.violation('sort-did-not-keep-fields-whole', 'step %d %r\nbefore=%r\nafter =%r' % (step, op, before, after))
            return False
        for a in range(len(got)):
            for b in range(a + 1, len(got)):
                if got[a]['name'].lower() == got[b]['name'].lower() and fields.index(got[a]) > fields.index(got[b]):
                    ctx.violation('sort-reorders-occurrences-of-one-name', 'step %d %r' % (step, op))
                    return False
        model['paras'][pi] = got
    else:
        want = rtdoc.para_text(expected)
        if region != want:
            got = split_para_text(region, fields)
            if got is None:
                key = 'fields-not-whole-after-%s' % op[0]
                if not model['final_newline']:
                    key = 'field-glued-after-unterminated-last-field'
            else:
                key = 'order-differs-from-model-after-%s' % op[0]
                moved_names = [g['name'].lower() for g in got]
                if op[0].startswith('order_') and sorted(map(id, got)) == sorted(map(id, expected)):
                    # same fields, different order: is it only the relative order of jointly moved occurrences?
                    exp_wo = [(fl['name'].lower()) for fl in expected]
                    if moved_names == exp_wo:
                        key = 'occurrences-moved-together-changed-relative-order'
            ctx.violation(key, 'step %d %r\nbefore=%r\nafter =%r\nwant paragraph=%r' % (step, op, before, after, want))
            return False
        model['paras'][pi] = list(expected)
    model['final_newline'] = after.endswith('\n')
    return True


def _gaps(text, para_texts):
    pos = 0
    spans = []
    for t in para_texts:
        k = text.find(t, pos)
        if k < 0:
            return None
        spans.append((k, k + len(t)))
        pos = k + len(t)
    gaps = [text[:spans[0][0]]]
    for i in range(len(spans) - 1):
        gaps.append(text[spans[i][1]:spans[i + 1][0]])
    gaps.append(text[spans[-1][1]:])
    return gaps


def _junction_ok(g1, g2, g):
    cands = {g1 + g2}
    if g1.endswith('\n'):
        cands.add(g1[:-1] + g2)
    if g2.startswith('\n'):
        cands.add(g1 + g2[1:])
    if g1.endswith('\n') and g2.startswith('\n'):
        cands.add(g1[:-1] + g2[1:])
    return g in cands


def _insert(ctx, step, op, f, model, paras, before, Deb822ParagraphElement):
    kind, idx, newfields = op
    para = Deb822ParagraphElement.new_empty_paragraph()
    for n, v in newfields:
        para[n] = v
    try:
        from debian._deb822_repro.parsing import Deb822DuplicateFieldsParagraphElement
        if any(dict(para.items()) == dict(q.items()) for q in paras if not isinstance(q, Deb822DuplicateFieldsParagraphElement)):
            ctx.count('new-paragraph-equal-in-content-to-an-existing-one')
    except Exception:
        pass
    xfields = []
    for kv, (n, v) in zip(para.iter_parts(), newfields):
        xfields.append({'name': n, 'comments': '', 'body': kv.convert_to_text(), 'value': v, 'id': 'n%d' % step})
    x = para.dump()
    if x != rtdoc.para_text(xfields) or not x.endswith('\n'):
        ctx.violation('new-paragraph-dump-inconsistent', 'step %d: %r' % (step, x))
        return False
    n = len(model['paras'])
    if not model['final_newline'] and (kind == 'append' or idx >= n):
        ctx.count('placed-after-unterminated-last-field')
    try:
        if kind == 'append':
            f.append(para)
            at = n
        else:
            f.insert(idx, para)
            at = min(idx, n)
    except Exception as e:
        ctx.violation('%s-raises/%s' % (kind, type(e).__name__), 'step %d %r on %r: %r' % (step, op, before, e))
        return False
    ctx.mon('M.step')
    after = f.dump()
    after_n = after if after.endswith('\n') else after + '\n'
    old_texts = [rtdoc.para_text(p) for p in model['paras']]
    new_texts = old_texts[:at] + [x] + old_texts[at:]
    gaps = _gaps(after_n, new_texts)
    if gaps is None:
        ctx.violation('paragraph-texts-not-preserved-in-order-after-%s' % kind,
                      'step %d %r\nbefore=%r\nafter =%r' % (step, op, before, after))
        return False
    old_gaps = [model['lead']] + model['seps'] + [model['trail']] if n else ['']
    ok = all(gaps[j] == old_gaps[j] for j in range(at)) and all(gaps[j] == old_gaps[j - 1] for j in range(at + 2, len(gaps))) \
        and _junction_ok(gaps[at], gaps[at + 1], old_gaps[at])
    if not ok:
        ctx.violation('separators-or-comments-changed-after-%s' % kind,
                      'step %d %r\nbefore=%r\nafter =%r\nold gaps=%r new gaps=%r' % (step, op, before, after, old_gaps, gaps))
        return False
    if model['final_newline'] and not after.endswith('\n'):
        ctx.violation('final-newline-lost', 'step %d %r: %r' % (step, op, after))
        return False
    model['paras'].insert(at, xfields)
    model['lead'], model['seps'], model['trail'] = gaps[0], gaps[1:-1], gaps[-1]
    model['final_newline'] = after.endswith('\n')
    paras.insert(at, para)
    live_order = list(f)
    if len(live_order) != len(paras) or any(a is not b for a, b in zip(live_order, paras)):
        ctx.violation('paragraph-iteration-order-differs-from-model-after-%s' % kind, 'step %d %r' % (step, op))
        return False
    return True


def _check_views(ctx, step, op, f, paras, model, parse):
    after = f.dump()
    # text
    want_text = rtdoc.doc_text(model) if (model['paras']) else ''
    if after != want_text:
        ctx.violation('harness/model-text-drift', 'step %d %r: model %r dump %r' % (step, op, want_text, after))
        return False
    # fresh parse
    ctx.mon('M.reparse')
    if after == '':
        return True
    try:
        re = parse(after.splitlines(keepends=True), accept_files_with_duplicated_fields=True)
    except Exception as e:
        ctx.violation('dump-does-not-reparse/%s' % type(e).__name__, 'step %d %r: dump %r: %r' % (step, op, after, e))
        return False
    got = [[kv.convert_to_text() for kv in p.iter_parts()] for p in re]
    want = [[ftext(fl) for fl in p] for p in model['paras']]
    if not model['final_newline'] and want and want[-1]:
        want[-1][-1] = want[-1][-1][:-1]
    if got != want:
        key = 'reparsed-dump-differs-from-model'
        if len(got) != len(want):
            key = 'reparsed-dump-has-different-paragraphs'
        ctx.violation(key, 'step %d %r\ndump=%r\nreparsed=%r\nmodel   =%r' % (step, op, after, got, want))
        return False
    # (name, i) on the live object denotes the i-th occurrence in document order
    ctx.mon('M.index')
    for live, fields in zip(paras, model['paras']):
        names = [fl['name'] for fl in fields]
        got_names = [str(k[0] if isinstance(k, tuple) else k) for k in live.iter_keys()]
        if [g.lower() for g in got_names] != [n.lower() for n in names]:
            ctx.violation('live-key-order-differs-from-model', 'step %d %r: live %r model %r' % (step, op, got_names, names))
            return False
        occ = {}
        for fl in fields:
            i = occ.get(fl['name'].lower(), 0)
            occ[fl['name'].lower()] = i + 1
            total = sum(1 for x in fields if x['name'].lower() == fl['name'].lower())
            try:
                kv = live.get_kvpair_element((fl['name'], i)) if total > 1 or i else live.get_kvpair_element(fl['name'])
            except Exception as e:
                ctx.violation('indexed-lookup-raises/%s' % type(e).__name__, 'step %d %r: (%r, %d): %r' % (step, op, fl['name'], i, e))
                return False
            got = kv.convert_to_text()
            if not got.endswith('\n'):
                got += '\n'        # the document's very last line may lack its newline
            if got != ftext(fl):
                ctx.violation('name-index-does-not-denote-ith-occurrence',
                              'step %d %r: (%r, %d) is %r, document order says %r' % (step, op, fl['name'], i, got, ftext(fl)))
                return False
    return True
